package main

import (
	"encoding/json"
	"flag"
	"fmt"
	"go/ast"
	"go/types"
	"os"
	"os/exec"
	"path/filepath"
	"sort"
	"strings"
	"time"
)

// Mutant: a deliberate property-breaking change used to test the checker itself (must-fail corpus).
type Mutant struct {
	Name      string `json:"name"`
	Property  string `json:"property"`
	File      string `json:"file"`
	Old       string `json:"old"`
	New       string `json:"new"`
	Diff      string `json:"diff"` // alternatively a patch file under mustfail/
	Note      string `json:"note"`
	SkipBuild bool   `json:"skip_build"`
	Expect    string `json:"expect"` // "" = the check must report a violation; "pass" = a harmless edit: the check must stay quiet
	Edits     []struct {
		File string `json:"file"`
		Old  string `json:"old"`
		New  string `json:"new"`
	} `json:"edits"` // further replacements applied with File/Old/New
}

func copyTree(src, dst string) error {
	return exec.Command("cp", "-r", src, dst).Run()
}

// cmdSelftest applies each mutant to a scratch copy of the repository, checks that it still compiles, runs the
// property's check against the copy and requires a violation.
func cmdSelftest(args []string) {
	fs := flag.NewFlagSet("selftest", flag.ExitOnError)
	repo := fs.String("repo", envOr("GFV_REPO", "/repo"), "repository")
	vdir := fs.String("verif", envOr("GFV_VERIF", "/verif"), "verif dir")
	only := fs.String("only", "", "substring filter on mutant name or property")
	corpus := fs.String("corpus", "mutants.json", "file under mustfail/: mutants.json (must fail) or harmless.json (must pass)")
	fs.Parse(args)
	var muts []Mutant
	if err := readJSON(filepath.Join(*vdir, "mustfail", *corpus), &muts); err != nil {
		fmt.Fprintln(os.Stderr, err)
		os.Exit(2)
	}
	sort.SliceStable(muts, func(i, j int) bool { return muts[i].Property < muts[j].Property })
	home, _ := os.UserHomeDir()
	base := filepath.Join(home, ".cache", "gfverify-scratch", fmt.Sprintf("selftest-%d", os.Getpid()))
	os.MkdirAll(base, 0o755)
	defer os.RemoveAll(base)
	self, _ := os.Executable()
	missed := 0
	type row struct{ Name, Property, Result string }
	var rows []row
	for _, m := range muts {
		if *only != "" && !strings.Contains(m.Name, *only) && !strings.Contains(m.Property, *only) {
			continue
		}
		dst := filepath.Join(base, "repo")
		os.RemoveAll(dst)
		if err := copyTree(*repo, dst); err != nil {
			fmt.Println("copy failed:", err)
			os.Exit(2)
		}
		os.RemoveAll(filepath.Join(dst, ".git"))
		result := ""
		if m.Diff != "" {
			cmd := exec.Command("git", "apply", "--unsafe-paths", "--directory="+dst, filepath.Join(*vdir, "mustfail", m.Diff))
			cmd.Dir = "/"
			cmd = exec.Command("patch", "-p1", "-s", "-i", filepath.Join(*vdir, "mustfail", m.Diff))
			cmd.Dir = dst
			if out, err := cmd.CombinedOutput(); err != nil {
				result = "PATCH-FAILED " + firstLines(string(out), 3)
			}
		} else {
			p := filepath.Join(dst, m.File)
			b, err := os.ReadFile(p)
			if err != nil || !strings.Contains(string(b), m.Old) {
				result = "PATTERN-NOT-FOUND"
			} else {
				os.WriteFile(p, []byte(strings.Replace(string(b), m.Old, m.New, 1)), 0o644)
			}
			for _, e := range m.Edits {
				p := filepath.Join(dst, e.File)
				b, err := os.ReadFile(p)
				if err != nil || !strings.Contains(string(b), e.Old) {
					result = "PATTERN-NOT-FOUND"
				} else {
					os.WriteFile(p, []byte(strings.Replace(string(b), e.Old, e.New, -1)), 0o644)
				}
			}
		}
		if result == "" && !m.SkipBuild {
			cmd := exec.Command("go", "build", "./...")
			cmd.Dir = dst
			cmd.Env = append(os.Environ(), "GOFLAGS=-mod=mod", "GOPROXY=off", "GOSUMDB=off", "GOTOOLCHAIN=local")
			if out, err := cmd.CombinedOutput(); err != nil {
				result = "DOES-NOT-COMPILE " + firstLines(string(out), 3)
			}
		}
		if result == "" {
			start := time.Now()
			for _, prop := range strings.Split(m.Property, ",") {
				cmd := exec.Command(self, "check", "--repo", dst, "--verif", *vdir, "--property", prop, "--no-evidence", "-q")
				out, err := cmd.CombinedOutput()
				code := 0
				if ee, ok := err.(*exec.ExitError); ok {
					code = ee.ExitCode()
				}
				viol := 0
				withInput := 0
				for _, ln := range strings.Split(string(out), "\n") {
					if strings.HasPrefix(ln, "VIOLATION ") {
						viol++
						if !strings.HasSuffix(ln, "no-failing-input-found") {
							withInput++
						}
					}
				}
				switch {
				case m.Expect == "pass" && code == 0 && viol == 0:
					result += fmt.Sprintf("quiet in %s (%.0fs) ", prop, time.Since(start).Seconds())
				case m.Expect == "pass":
					result += fmt.Sprintf("FALSE-ALARM in %s (exit %d, %d violations): %s ", prop, code, viol, firstLines(string(out), 2))
					missed++
				case code == 1 && viol > 0:
					result += fmt.Sprintf("caught by %s (%d violations, %d with failing input, %.0fs) ", prop, viol, withInput, time.Since(start).Seconds())
				case code == 0:
					result += "MISSED by " + prop + " "
					missed++
				default:
					result += fmt.Sprintf("ENGINE-ERROR in %s (exit %d): %s ", prop, code, firstLines(string(out), 3))
					missed++
				}
			}
		} else {
			missed++
		}
		fmt.Printf("%-50s %-8s %s\n", m.Name, m.Property, result)
		rows = append(rows, row{m.Name, m.Property, result})
	}
	b, _ := json.MarshalIndent(rows, "", " ")
	os.WriteFile(filepath.Join(*vdir, "mustfail", "last_selftest_"+strings.TrimSuffix(*corpus, ".json")+".json"), b, 0o644)
	if missed > 0 {
		fmt.Printf("%d mutants not caught\n", missed)
		os.Exit(1)
	}
}

// cmdRenameLocals (robustness probe): writes a copy of the repository in which every variable declared by a function
// under contract (parameters, named results, locals) is renamed (suffix "Rn"). Pure renames must leave every check quiet.
func cmdRenameLocals(args []string) {
	fs := flag.NewFlagSet("renamelocals", flag.ExitOnError)
	repo := fs.String("repo", envOr("GFV_REPO", "/repo"), "repository")
	vdir := fs.String("verif", envOr("GFV_VERIF", "/verif"), "verif dir")
	out := fs.String("out", "", "directory to write the renamed copy to (must not exist)")
	fs.Parse(args)
	if *out == "" {
		fmt.Fprintln(os.Stderr, "usage: gfverify renamelocals -out <dir>")
		os.Exit(2)
	}
	g, err := loadAll(*repo, *vdir)
	if err != nil {
		fmt.Fprintln(os.Stderr, err)
		os.Exit(2)
	}
	if err := copyTree(*repo, *out); err != nil {
		fmt.Fprintln(os.Stderr, "copy failed:", err)
		os.Exit(2)
	}
	os.RemoveAll(filepath.Join(*out, ".git"))
	type edit struct{ off, n int }
	edits := map[string][]edit{}
	nfun, nid := 0, 0
	for key := range g.cs.Funcs {
		fi := g.funcs[key]
		if fi == nil {
			continue
		}
		objs := map[types.Object]bool{}
		for _, o := range g.declList(fi) {
			objs[o] = true
		}
		if len(objs) == 0 {
			continue
		}
		nfun++
		info := fi.Pkg.TypesInfo
		var root ast.Node = fi.Decl
		if fi.Decl == nil {
			root = fi.Lit
		}
		ast.Inspect(root, func(n ast.Node) bool {
			id, ok := n.(*ast.Ident)
			if !ok {
				return true
			}
			obj := info.Defs[id]
			if obj == nil {
				obj = info.Uses[id]
			}
			if obj != nil && objs[obj] {
				p := g.fset.Position(id.Pos())
				edits[p.Filename] = append(edits[p.Filename], edit{p.Offset, len(id.Name)})
				nid++
			}
			return true
		})
	}
	for file, es := range edits {
		rel, _ := filepath.Rel(*repo, file)
		dst := filepath.Join(*out, rel)
		b, err := os.ReadFile(dst)
		if err != nil {
			fmt.Fprintln(os.Stderr, err)
			os.Exit(2)
		}
		sort.Slice(es, func(i, j int) bool { return es[i].off > es[j].off })
		seen := map[int]bool{}
		for _, e := range es {
			if seen[e.off] {
				continue
			}
			seen[e.off] = true
			b = append(b[:e.off+e.n], append([]byte("Rn"), b[e.off+e.n:]...)...)
		}
		os.WriteFile(dst, b, 0o644)
	}
	fmt.Printf("renamed %d identifiers in %d functions under contract; copy in %s\n", nid, nfun, *out)
}
