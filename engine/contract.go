package main

// Parsing of the //@ contract files (pkg/<p>/zz_verif_contracts.go, mirrored in /verif/contracts)
// and of /verif/spec/*.spec.

import (
	"fmt"
	"go/ast"
	"go/parser"
	"go/token"
	"os"
	"path/filepath"
	"regexp"
	"strconv"
	"strings"
)

type Clause struct {
	Text  string
	Expr  ast.Expr
	Where string // file:line
	Label string
}

type GhostDecl struct {
	Name string
	Type string
	Init string
}

type LoopSpec struct {
	Invariants []Clause
	DoStart    []ast.Stmt
	DoEnd      []ast.Stmt
	Decreases  *Clause
	DoStartTxt []string
	DoEndTxt   []string
	WritesAll  bool // `writes everything`: the loop may write any array; nothing about array contents survives the loop head except through invariants
}

type PointSpec struct {
	When   string // before | after
	Anchor string // e.g. append#1, send#2, return#1, call:Write#3
	Assert *Clause
	Assume bool // the clause is an ENVIRONMENT ASSUMPTION (about values other goroutines put on channels this call made): assumed, never proved, listed in the evidence
	Do     []ast.Stmt
	DoTxt  string
}

type Contract struct {
	Key           string
	Pkg           string
	Requires      []Clause
	Ensures       []Clause
	Modifies      []Clause
	Ghosts        []GhostDecl
	Loops         map[int]*LoopSpec
	Points        []PointSpec
	Trusted       bool // contract assumed, body not verified
	TrustWhy      string
	Props         []string // properties this function's obligations belong to (tags)
	Inline        bool
	Deterministic bool // also check syntactically that the function's call tree cannot depend on anything but its arguments
	Prefix        bool // verify only the statements before the first one outside the subset (orchestration functions)
	Entry         bool // command entry closures (cobra RunE literals): package-level variables are assignable state, top-level `defer` statements run at every later return
	Spawns        bool // fan-out functions: `go` statements are skipped (arguments still evaluated), channels made by the call are a family with per-handle ghost logs
	Where         string
}

type SpecFunc struct {
	Name     string
	Pkg      string // "" = global
	Params   []specParam
	Result   string // Go type text
	Body     ast.Expr
	BodyTxt  string
	SMT      string // raw smt body
	Uninterp bool
	IsPred   bool
	Where    string
}

type specParam struct{ Name, Type string }

type Lemma struct {
	Name  string
	Pkg   string
	Vars  []specParam
	Expr  Clause
	Props []string
	Where string
	Hints []string
}

type Axiom struct {
	Pkg  string
	Expr Clause
	Why  string
}

type ContractSet struct {
	Funcs  map[string]*Contract // key "pkg.Func", "pkg.Recv.Method", "pkg.Table[key]"
	Specs  map[string]*SpecFunc // by name (pkg-qualified lookups try pkg.name first)
	Lemmas []*Lemma
	Axioms []*Axiom
	Order  []string
}

func newContractSet() *ContractSet {
	return &ContractSet{Funcs: map[string]*Contract{}, Specs: map[string]*SpecFunc{}}
}

var reFunc = regexp.MustCompile(`^func\s+(\S+)(.*)$`)
var rePred = regexp.MustCompile(`^pred\s+([A-Za-z_][A-Za-z0-9_]*)\s*\(([^)]*)\)\s*=\s*(.*)$`)
var reSpec = regexp.MustCompile(`^spec\s+([A-Za-z_][A-Za-z0-9_]*)\s*\(([^)]*)\)\s*(\S+)\s*(=|smt|uninterpreted)\s*(.*)$`)
var reLemma = regexp.MustCompile(`^lemma\s+([A-Za-z_][A-Za-z0-9_.]*)\s*(\[[^\]]*\])?\s*(?:\(([^)]*)\))?\s*:\s*(.*)$`)

func parseExprText(txt string) (ast.Expr, error) {
	e, err := parser.ParseExpr(txt)
	if err != nil {
		return nil, fmt.Errorf("cannot parse %q: %v", txt, err)
	}
	return e, nil
}

func parseStmtsText(txt string) ([]ast.Stmt, error) {
	src := "package p\nfunc _() {\n" + txt + "\n}"
	fset := token.NewFileSet()
	f, err := parser.ParseFile(fset, "ghost.go", src, 0)
	if err != nil {
		return nil, fmt.Errorf("cannot parse ghost statement %q: %v", txt, err)
	}
	return f.Decls[0].(*ast.FuncDecl).Body.List, nil
}

func parseParams(s string) []specParam {
	var out []specParam
	s = strings.TrimSpace(s)
	if s == "" {
		return nil
	}
	for _, p := range strings.Split(s, ",") {
		fs := strings.Fields(strings.TrimSpace(p))
		if len(fs) == 2 {
			out = append(out, specParam{fs[0], fs[1]})
		} else if len(fs) == 1 {
			out = append(out, specParam{fs[0], ""})
		}
	}
	// propagate types backwards (a, b int)
	for i := len(out) - 2; i >= 0; i-- {
		if out[i].Type == "" {
			out[i].Type = out[i+1].Type
		}
	}
	return out
}

// readContractLines extracts the //@ lines of a file, joining continuation lines (trailing backslash).
func readContractLines(path string) ([]string, []int, error) {
	b, err := os.ReadFile(path)
	if err != nil {
		return nil, nil, err
	}
	var lines []string
	var nums []int
	cur := ""
	curLine := 0
	for i, ln := range strings.Split(string(b), "\n") {
		t := strings.TrimSpace(ln)
		if !strings.HasPrefix(t, "//@") {
			continue
		}
		t = strings.TrimSpace(strings.TrimPrefix(t, "//@"))
		if t == "" || strings.HasPrefix(t, "#") {
			continue
		}
		if cur == "" {
			curLine = i + 1
		}
		if strings.HasSuffix(t, "\\") {
			cur += strings.TrimSuffix(t, "\\") + " "
			continue
		}
		cur += t
		lines = append(lines, cur)
		nums = append(nums, curLine)
		cur = ""
	}
	return lines, nums, nil
}

func (cs *ContractSet) parseFile(path string, pkgName string) error {
	lines, nums, err := readContractLines(path)
	if err != nil {
		return err
	}
	var cur *Contract
	var curLoop *LoopSpec
	var curLemma *Lemma
	base := filepath.Base(filepath.Dir(path)) + "/" + filepath.Base(path)
	for i, ln := range lines {
		where := fmt.Sprintf("%s:%d", base, nums[i])
		fail := func(err error) error { return fmt.Errorf("%s: %v", where, err) }
		mkClause := func(txt string) (Clause, error) {
			label := ""
			if strings.HasPrefix(txt, "[") {
				if j := strings.Index(txt, "]"); j > 0 {
					label = txt[1:j]
					txt = strings.TrimSpace(txt[j+1:])
				}
			}
			e, err := parseExprText(txt)
			if err != nil {
				return Clause{}, err
			}
			return Clause{Text: txt, Expr: e, Where: where, Label: label}, nil
		}
		word := ln
		rest := ""
		if j := strings.IndexAny(ln, " \t"); j > 0 {
			word = ln[:j]
			rest = strings.TrimSpace(ln[j:])
		}
		switch word {
		case "func":
			m := reFunc.FindStringSubmatch(ln)
			if m == nil {
				return fail(fmt.Errorf("bad func line"))
			}
			name := m[1]
			cur = &Contract{Key: pkgName + "." + name, Pkg: pkgName, Loops: map[int]*LoopSpec{}, Where: where}
			opts := strings.TrimSpace(m[2])
			for _, o := range strings.Fields(opts) {
				switch {
				case o == "trusted":
					cur.Trusted = true
				case o == "inline":
					cur.Inline = true
				case o == "prefix":
					cur.Prefix = true
				case o == "spawns":
					cur.Spawns = true
				case o == "entry":
					cur.Entry = true
				case o == "deterministic":
					cur.Deterministic = true
				case strings.HasPrefix(o, "props="):
					cur.Props = strings.Split(strings.TrimPrefix(o, "props="), ",")
				}
			}
			if _, dup := cs.Funcs[cur.Key]; dup {
				return fail(fmt.Errorf("duplicate contract for %s", cur.Key))
			}
			cs.Funcs[cur.Key] = cur
			cs.Order = append(cs.Order, cur.Key)
			curLoop = nil
			curLemma = nil
		case "trusted-because":
			if cur == nil {
				return fail(fmt.Errorf("trusted-because outside func"))
			}
			cur.TrustWhy = rest
		case "requires", "ensures", "modifies":
			if cur == nil {
				return fail(fmt.Errorf("%s outside func", word))
			}
			if word == "modifies" {
				for _, part := range splitTopLevelCommas(rest) {
					cl, err := mkClause(part)
					if err != nil {
						return fail(err)
					}
					cur.Modifies = append(cur.Modifies, cl)
				}
				break
			}
			cl, err := mkClause(rest)
			if err != nil {
				return fail(err)
			}
			if word == "requires" {
				cur.Requires = append(cur.Requires, cl)
			} else {
				cur.Ensures = append(cur.Ensures, cl)
			}
		case "ghost":
			if cur == nil {
				return fail(fmt.Errorf("ghost outside func"))
			}
			// ghost name type = init
			parts := strings.SplitN(rest, "=", 2)
			fs := strings.Fields(parts[0])
			if len(fs) != 2 || len(parts) != 2 {
				return fail(fmt.Errorf("ghost syntax: ghost <name> <type> = <expr>"))
			}
			cur.Ghosts = append(cur.Ghosts, GhostDecl{fs[0], fs[1], strings.TrimSpace(parts[1])})
		case "loop":
			if cur == nil {
				return fail(fmt.Errorf("loop outside func"))
			}
			n, err := strconv.Atoi(strings.TrimSuffix(rest, ":"))
			if err != nil {
				return fail(err)
			}
			curLoop = &LoopSpec{}
			cur.Loops[n] = curLoop
		case "invariant":
			if curLoop == nil {
				return fail(fmt.Errorf("invariant outside loop"))
			}
			cl, err := mkClause(rest)
			if err != nil {
				return fail(err)
			}
			curLoop.Invariants = append(curLoop.Invariants, cl)
		case "decreases":
			if curLoop == nil {
				return fail(fmt.Errorf("decreases outside loop"))
			}
			cl, err := mkClause(rest)
			if err != nil {
				return fail(err)
			}
			curLoop.Decreases = &cl
		case "writes":
			if curLoop == nil || strings.TrimSpace(rest) != "everything" {
				return fail(fmt.Errorf("expected `writes everything` inside a loop block"))
			}
			curLoop.WritesAll = true
		case "do-start", "do-end":
			if curLoop == nil {
				return fail(fmt.Errorf("%s outside loop", word))
			}
			st, err := parseStmtsText(rest)
			if err != nil {
				return fail(err)
			}
			if word == "do-start" {
				curLoop.DoStart = append(curLoop.DoStart, st...)
				curLoop.DoStartTxt = append(curLoop.DoStartTxt, rest)
			} else {
				curLoop.DoEnd = append(curLoop.DoEnd, st...)
				curLoop.DoEndTxt = append(curLoop.DoEndTxt, rest)
			}
		case "before", "after":
			if cur == nil {
				return fail(fmt.Errorf("%s outside func", word))
			}
			// before <anchor>: assert <expr> | do <stmt>
			j := strings.Index(rest, ":")
			// anchors may contain ':' (call:Write#1) – find ": " followed by assert/do
			k := strings.Index(rest, ": assert ")
			kind := "assert"
			if k < 0 {
				k = strings.Index(rest, ": assume ")
				kind = "assume"
			}
			if k < 0 {
				k = strings.Index(rest, ": do ")
				kind = "do"
			}
			if k < 0 || j < 0 {
				return fail(fmt.Errorf("point syntax: before|after <anchor>: assert <e> | do <stmt>"))
			}
			anchor := strings.TrimSpace(rest[:k])
			body := strings.TrimSpace(rest[k+2+len(kind):])
			ps := PointSpec{When: word, Anchor: anchor}
			if kind == "assert" || kind == "assume" {
				cl, err := mkClause(body)
				if err != nil {
					return fail(err)
				}
				ps.Assert = &cl
				ps.Assume = kind == "assume"
			} else {
				st, err := parseStmtsText(body)
				if err != nil {
					return fail(err)
				}
				ps.Do = st
				ps.DoTxt = body
			}
			cur.Points = append(cur.Points, ps)
		case "spec":
			m := reSpec.FindStringSubmatch(ln)
			if m == nil {
				return fail(fmt.Errorf("bad spec line: %s", ln))
			}
			sf := &SpecFunc{Name: m[1], Pkg: pkgName, Params: parseParams(m[2]), Result: m[3], Where: where}
			switch m[4] {
			case "=":
				e, err := parseExprText(m[5])
				if err != nil {
					return fail(err)
				}
				sf.Body = e
				sf.BodyTxt = m[5]
			case "smt":
				sf.SMT = m[5]
			case "uninterpreted":
				sf.Uninterp = true
			}
			key := sf.Name
			if pkgName != "" {
				key = pkgName + "." + sf.Name
			}
			cs.Specs[key] = sf
			cur = nil
			curLoop = nil
		case "pred":
			m := rePred.FindStringSubmatch(ln)
			if m == nil {
				return fail(fmt.Errorf("bad pred line: %s", ln))
			}
			e, err := parseExprText(m[3])
			if err != nil {
				return fail(err)
			}
			sf := &SpecFunc{Name: m[1], Pkg: pkgName, Params: parseParams(m[2]), Result: "bool", Body: e, BodyTxt: m[3], Where: where, IsPred: true}
			key := sf.Name
			if pkgName != "" {
				key = pkgName + "." + sf.Name
			}
			cs.Specs[key] = sf
			cur = nil
			curLoop = nil
		case "axiom":
			cl, err := mkClause(rest)
			if err != nil {
				return fail(err)
			}
			cs.Axioms = append(cs.Axioms, &Axiom{Pkg: pkgName, Expr: cl})
		case "lemma":
			m := reLemma.FindStringSubmatch(ln)
			if m == nil {
				return fail(fmt.Errorf("bad lemma line"))
			}
			cl, err := mkClause(m[4])
			if err != nil {
				return fail(err)
			}
			lm := &Lemma{Name: m[1], Pkg: pkgName, Vars: parseParams(m[3]), Expr: cl, Where: where}
			if m[2] != "" {
				lm.Props = strings.Split(strings.Trim(m[2], "[]"), ",")
			}
			cs.Lemmas = append(cs.Lemmas, lm)
			curLemma = lm
			cur = nil
			curLoop = nil
		case "hint":
			if curLemma != nil {
				curLemma.Hints = append(curLemma.Hints, rest)
			}
		default:
			return fail(fmt.Errorf("unknown contract keyword %q", word))
		}
	}
	return nil
}

func splitTopLevelCommas(s string) []string {
	var out []string
	depth := 0
	start := 0
	for i, ch := range s {
		switch ch {
		case '(', '[', '{':
			depth++
		case ')', ']', '}':
			depth--
		case ',':
			if depth == 0 {
				out = append(out, strings.TrimSpace(s[start:i]))
				start = i + 1
			}
		}
	}
	if strings.TrimSpace(s[start:]) != "" {
		out = append(out, strings.TrimSpace(s[start:]))
	}
	return out
}
