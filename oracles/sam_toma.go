// gfv:dir pkg/sam
//
// Oracle for C01/C15 (from the property statement and the SAM specification): the row of a record has the reference
// length; its character at reference position i is the query base the CIGAR aligns to i, '-' where the CIGAR deletes i
// ('*' for N and for uncovered positions); inserted, soft- and hard-clipped bases contribute nothing. Uncovered
// positions become '-' outside the first/last aligned base and 'N' between them (all 'N' under --pad). Two different
// bases at a site give 'N', otherwise base beats deletion beats no coverage. Windowing selects columns start..end.
package sam

import (
	"encoding/json"
	"fmt"
	"math/rand"
	"os"
	"strconv"
	"testing"
	"time"

	biogosam "github.com/biogo/hts/sam"
)

type verifOp struct {
	T string `json:"t"`
	N int    `json:"n"`
}
type verifTomaIn struct {
	Pos    int       `json:"pos"` // 0-based
	Ops    []verifOp `json:"ops"`
	Seq    string    `json:"seq"`
	RefLen int       `json:"reflen"`
	Site   string    `json:"site,omitempty"`
	Start  int       `json:"start,omitempty"`
	End    int       `json:"end,omitempty"`
	Pad    bool      `json:"pad,omitempty"`
}

var verifOpType = map[string]biogosam.CigarOpType{"M": biogosam.CigarMatch, "I": biogosam.CigarInsertion, "D": biogosam.CigarDeletion, "N": biogosam.CigarSkipped, "S": biogosam.CigarSoftClipped, "H": biogosam.CigarHardClipped, "P": biogosam.CigarPadded, "=": biogosam.CigarEqual, "X": biogosam.CigarMismatch}

func verifSpecRow(in verifTomaIn) (string, bool) {
	row := make([]byte, in.RefLen)
	for i := range row {
		row[i] = '*'
	}
	q, r := 0, in.Pos
	for _, op := range in.Ops {
		switch op.T {
		case "M", "=", "X":
			for j := 0; j < op.N; j++ {
				if r >= in.RefLen || q >= len(in.Seq) {
					return "", false
				}
				row[r] = in.Seq[q]
				r++
				q++
			}
		case "D":
			for j := 0; j < op.N; j++ {
				if r >= in.RefLen {
					return "", false
				}
				row[r] = '-'
				r++
			}
		case "N":
			r += op.N
			if r > in.RefLen {
				return "", false
			}
		case "I", "S":
			q += op.N
			if q > len(in.Seq) {
				return "", false
			}
		}
	}
	return string(row), true
}

func verifFlank(row string, pad bool) string {
	b := []byte(row)
	first, last := -1, -1
	for i, c := range b {
		if (c >= 'A' && c <= 'Z') || (c >= 'a' && c <= 'z') {
			if first < 0 {
				first = i
			}
			last = i
		}
	}
	for i, c := range b {
		if c != '*' {
			continue
		}
		if pad || (first >= 0 && i > first && i < last) {
			b[i] = 'N'
		} else {
			b[i] = '-'
		}
	}
	return string(b)
}

func verifCheckToma(in verifTomaIn) (ok bool, detail string) {
	defer func() {
		if r := recover(); r != nil {
			ok, detail = false, fmt.Sprintf("panic on %+v: %v", in, r)
		}
	}()
	if in.Site != "" {
		got := getNucFromSite([]byte(in.Site), "q", 0)
		letters := map[byte]bool{}
		var mx byte
		for i := 0; i < len(in.Site); i++ {
			c := in.Site[i]
			if (c >= 'A' && c <= 'Z') || (c >= 'a' && c <= 'z') {
				letters[c] = true
			}
			if c > mx {
				mx = c
			}
		}
		want := mx
		if len(letters) > 1 {
			want = 'N'
		}
		if got != want {
			return false, fmt.Sprintf("getNucFromSite(%q) = %q, the flattening rule gives %q", in.Site, got, want)
		}
		return true, ""
	}
	want, valid := verifSpecRow(in)
	if !valid {
		return true, ""
	}
	var cig biogosam.Cigar
	for _, op := range in.Ops {
		cig = append(cig, biogosam.NewCigarOp(verifOpType[op.T], op.N))
	}
	rec := biogosam.Record{Name: "q", Pos: in.Pos, Cigar: cig, Seq: biogosam.NewSeq([]byte(in.Seq))}
	got, err := getOneLine(rec, in.RefLen, false)
	if err != nil {
		return false, "unexpected error: " + err.Error()
	}
	if string(got) != want {
		return false, fmt.Sprintf("getOneLine(pos=%d, cigar=%v, seq=%q, refLen=%d) = %q, the SAM projection is %q", in.Pos, in.Ops, in.Seq, in.RefLen, got, want)
	}
	// flank rewriting and windowing
	for _, pad := range []bool{false, true} {
		raw := []byte(want)
		fr := getFastaRecord(raw, "q", 0, false, pad, 0, 0)
		if fr.Seq != verifFlank(want, pad) {
			return false, fmt.Sprintf("row %q with pad=%v is written as %q, the flank rule gives %q", want, pad, fr.Seq, verifFlank(want, pad))
		}
		if in.Start >= 1 && in.End >= in.Start && in.End <= in.RefLen {
			raw2 := []byte(want)
			fr2 := getFastaRecord(raw2, "q", 0, true, pad, in.Start, in.End)
			full := verifFlank(want, pad)
			exp := full[in.Start-1 : in.End]
			if pad {
				b := []byte(full)
				for i := range b {
					if i < in.Start-1 || i >= in.End {
						b[i] = 'N'
					}
				}
				exp = string(b)
			}
			if fr2.Seq != exp {
				return false, fmt.Sprintf("row %q window %d..%d pad=%v is written as %q, expected %q", want, in.Start, in.End, pad, fr2.Seq, exp)
			}
		}
	}
	return true, ""
}

func TestVerifOracle(t *testing.T) {
	report := func(in verifTomaIn, detail string) {
		b, _ := json.Marshal(map[string]interface{}{"input": in, "detail": detail})
		fmt.Println("GFV-FAIL " + string(b))
	}
	if s := os.Getenv("GFV_INPUT"); s != "" {
		var in verifTomaIn
		if err := json.Unmarshal([]byte(s), &in); err != nil {
			t.Fatal(err)
		}
		if ok, d := verifCheckToma(in); !ok {
			report(in, d)
		}
		return
	}
	budget, _ := strconv.Atoi(os.Getenv("GFV_BUDGET_MS"))
	if budget == 0 {
		budget = 5000
	}
	deadline := time.Now().Add(time.Duration(budget) * time.Millisecond)
	n := 0
	// sites
	syms := []byte{'A', 'C', '-', '*', 'N'}
	for L := 1; L <= 4; L++ {
		total := 1
		for i := 0; i < L; i++ {
			total *= len(syms)
		}
		for code := 0; code < total; code++ {
			b := make([]byte, L)
			c := code
			for i := range b {
				b[i] = syms[c%len(syms)]
				c /= len(syms)
			}
			n++
			in := verifTomaIn{Site: string(b)}
			if ok, d := verifCheckToma(in); !ok {
				report(in, d)
				return
			}
		}
	}
	// CIGARs: every sequence of up to 3 operations of length 1..2 at POS 0..2 on a reference of length 6
	kinds := []string{"M", "I", "D", "N", "S", "H", "P", "=", "X"}
	var gen func(ops []verifOp, depth int) bool
	gen = func(ops []verifOp, depth int) bool {
		if len(ops) > 0 {
			q := 0
			for _, o := range ops {
				if o.T == "M" || o.T == "=" || o.T == "X" || o.T == "I" || o.T == "S" {
					q += o.N
				}
			}
			seq := "ACGTACGTACGT"[:q]
			for pos := 0; pos <= 2; pos++ {
				in := verifTomaIn{Pos: pos, Ops: append([]verifOp{}, ops...), Seq: seq, RefLen: 6, Start: 2, End: 5}
				n++
				if ok, d := verifCheckToma(in); !ok {
					report(in, d)
					return false
				}
			}
		}
		if depth == 3 || time.Now().After(deadline) {
			return true
		}
		for _, k := range kinds {
			for ln := 1; ln <= 2; ln++ {
				if !gen(append(ops, verifOp{k, ln}), depth+1) {
					return false
				}
			}
		}
		return true
	}
	if !gen(nil, 0) {
		return
	}
	seed, _ := strconv.ParseInt(os.Getenv("VERIF_SEED"), 10, 64)
	rng := rand.New(rand.NewSource(seed))
	for time.Now().Before(deadline) {
		var ops []verifOp
		q := 0
		for k := 1 + rng.Intn(6); k > 0; k-- {
			o := verifOp{kinds[rng.Intn(len(kinds))], 1 + rng.Intn(4)}
			ops = append(ops, o)
			if o.T == "M" || o.T == "=" || o.T == "X" || o.T == "I" || o.T == "S" {
				q += o.N
			}
		}
		seq := make([]byte, q)
		for i := range seq {
			seq[i] = "ACGT"[rng.Intn(4)]
		}
		rl := 10 + rng.Intn(20)
		s := 1 + rng.Intn(rl)
		in := verifTomaIn{Pos: rng.Intn(5), Ops: ops, Seq: string(seq), RefLen: rl, Start: s, End: s + rng.Intn(rl-s+1)}
		n++
		if ok, d := verifCheckToma(in); !ok {
			report(in, d)
			return
		}
	}
	fmt.Printf("GFV-DONE %d (all sites of height 1..4 over {A,C,-,*,N}; all CIGARs of up to 3 operations of length 1..2 at POS 0..2; seeded random CIGARs)\n", n)
}
