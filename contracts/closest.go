//go:build verif

package closest

//@ # C19: a failed Write is never reported as success: result == nil implies no Write failed, for EVERY failure point
//@ # (the loop invariant !failed(w) covers every write index at once). Content (C06): one row per result.
//@ func writeClosest
//@   modifies w
//@   loop 1:
//@     invariant !failed(w)
//@     invariant implies(measure == "raw" || measure == "snp" || measure == "tn93", len(written(w)) == 1 + range_i && written(w)[0] == "query,closest,distance,SNPs\n")
//@   ensures [c19] implies(result == nil, !failed(w))
//@   ensures [rows] implies(result == nil && (measure == "raw" || measure == "snp" || measure == "tn93"), len(written(w)) == 1 + len(results) && written(w)[0] == "query,closest,distance,SNPs\n")

//@ func writeClosestN
//@   modifies w
//@   loop 1:
//@     invariant !failed(w) && len(written(w)) == 1 + range_i && written(w)[0] == "query,closest\n"
//@   ensures [c19] implies(result == nil, !failed(w))
//@   ensures [rows] implies(result == nil, len(written(w)) == 1 + len(results) && written(w)[0] == "query,closest\n")

//@ func writeClosestNTable
//@   modifies w
//@   loop 1:
//@     invariant !failed(w)
//@   loop 2:
//@     invariant !failed(w)
//@   loop 3:
//@     invariant !failed(w)
//@   loop 4:
//@     invariant !failed(w)
//@   ensures [c19] implies(result == nil, !failed(w))

//@ # C07: the per-column classification on encoded symbols. disjoint(a,b) = (a&b) < 16; same resolved base = a&8==8 && a==b.
//@ # (Lemmas EA_disjoint / EA_resolved / EA_same / EA_purine / EA_pyrimidine in the encoding package tie these bit tests to
//@ # the IUPAC meaning of the symbols.) The counters equal the specification's counts over ALL columns.
//@ func snpDistance
//@   requires len(query.Seq) == len(target.Seq)
//@   loop 1:
//@     invariant n == count(k, 0, i, (query.Seq[k] & target.Seq[k]) < 16)
//@   ensures !isnan(result) && result == float64(count(k, 0, len(target.Seq), (query.Seq[k] & target.Seq[k]) < 16))
//@   ensures [identical] countzero(k, 0, len(target.Seq), (query.Seq[k] & target.Seq[k]) < 16) && implies(forall(k, 0, len(target.Seq), query.Seq[k] == target.Seq[k] && isCode(target.Seq[k]) && (target.Seq[k] & 8) == 8), result == 0.0)

//@ func rawDistance
//@   requires len(query.Seq) == len(target.Seq)
//@   loop 1:
//@     invariant n == count(k, 0, i, (query.Seq[k] & target.Seq[k]) < 16)
//@     invariant d == n + count(k, 0, i, (query.Seq[k] & 8) == 8 && query.Seq[k] == target.Seq[k])
//@   ensures [def] isnan(result) || result == float64(count(k, 0, len(target.Seq), (query.Seq[k] & target.Seq[k]) < 16)) / float64(count(k, 0, len(target.Seq), (query.Seq[k] & target.Seq[k]) < 16) + count(k, 0, len(target.Seq), (query.Seq[k] & 8) == 8 && query.Seq[k] == target.Seq[k]))
//@   ensures [range] implies(!isnan(result), result >= 0.0 && result <= 1.0)
//@   ensures [identical] countzero(k, 0, len(target.Seq), (query.Seq[k] & target.Seq[k]) < 16) && countall(k, 0, len(target.Seq), (query.Seq[k] & 8) == 8 && query.Seq[k] == target.Seq[k]) && implies(len(target.Seq) > 0 && forall(k, 0, len(target.Seq), query.Seq[k] == target.Seq[k] && isCode(target.Seq[k]) && (target.Seq[k] & 8) == 8), result == 0.0)
//@   ensures [nan] isnan(result) == (count(k, 0, len(target.Seq), (query.Seq[k] & target.Seq[k]) < 16) + count(k, 0, len(target.Seq), (query.Seq[k] & 8) == 8 && query.Seq[k] == target.Seq[k]) == 0)

//@ # tn93: Tamura & Nei (1993) eq. 7, written from the paper: gR = gA+gG, gY = gC+gT,
//@ # d = -(2 gA gG/gR) ln(1 - gR/(2 gA gG) P1 - Q/(2 gR)) - (2 gT gC/gY) ln(1 - gY/(2 gT gC) P2 - Q/(2 gY))
//@ #     - 2 (gR gY - gA gG gY/gR - gT gC gR/gY) ln(1 - Q/(2 gR gY))
//@ spec tn93arg1(P1 float64, Q float64, gA float64, gG float64, gR float64) float64 = 1.0 - gR/(2.0*gA*gG)*P1 - Q/(2.0*gR)
//@ spec tn93arg2(P2 float64, Q float64, gC float64, gT float64, gY float64) float64 = 1.0 - gY/(2.0*gT*gC)*P2 - Q/(2.0*gY)
//@ spec tn93arg3(Q float64, gR float64, gY float64) float64 = 1.0 - Q/(2.0*gR*gY)
//@ spec tn93c1(gA float64, gG float64, gR float64) float64 = 2.0*gA*gG/gR
//@ spec tn93c2(gC float64, gT float64, gY float64) float64 = 2.0*gT*gC/gY
//@ spec tn93c3(gA float64, gC float64, gG float64, gT float64, gR float64, gY float64) float64 = 2.0*(gR*gY - gA*gG*gY/gR - gT*gC*gR/gY)
//@ func tn93Distance
//@   requires len(query.Seq) == len(target.Seq)
//@   requires forall(k, 0, len(target.Seq), isCode(query.Seq[k]) && isCode(target.Seq[k]))
//@   requires query.Count_A == 0 && query.Count_C == 0 && query.Count_G == 0 && query.Count_T == 0
//@   requires target.Count_A > 0 && target.Count_C > 0 && target.Count_G > 0 && target.Count_T > 0
//@   loop 1:
//@     invariant count_d == count(k, 0, i, (query.Seq[k] & target.Seq[k]) < 16 && (query.Seq[k] & 8) == 8 && (target.Seq[k] & 8) == 8)
//@     invariant count_L == count_d + count(k, 0, i, (query.Seq[k] & 8) == 8 && query.Seq[k] == target.Seq[k])
//@     invariant count_P1 == count(k, 0, i, (query.Seq[k] & target.Seq[k]) < 16 && (query.Seq[k] & 8) == 8 && (target.Seq[k] & 8) == 8 && (query.Seq[k] | target.Seq[k]) == 200)
//@     invariant count_P2 == count(k, 0, i, (query.Seq[k] & target.Seq[k]) < 16 && (query.Seq[k] & 8) == 8 && (target.Seq[k] & 8) == 8 && (query.Seq[k] | target.Seq[k]) == 56)
//@     invariant 0 <= count_P1 && 0 <= count_P2 && count_P1 + count_P2 <= count_d && count_d <= count_L
//@   before return#1: assert [counts] count_L > 0 || isnan(P1)
//@   before return#1: assert [freq] !isnan(g_A) && g_A > 0.0 && g_C > 0.0 && g_G > 0.0 && g_T > 0.0 && g_R == g_A + g_G && g_Y == g_C + g_T
//@   before return#1: assert [freq.def] g_A == float64(target.Count_A) / float64(target.Count_A + target.Count_C + target.Count_G + target.Count_T) && g_C == float64(target.Count_C) / float64(target.Count_A + target.Count_C + target.Count_G + target.Count_T) && g_G == float64(target.Count_G) / float64(target.Count_A + target.Count_C + target.Count_G + target.Count_T) && g_T == float64(target.Count_T) / float64(target.Count_A + target.Count_C + target.Count_G + target.Count_T)
//@   before return#1: assert [rates] implies(count_L > 0, P1 == float64(count_P1) / float64(count_L) && P2 == float64(count_P2) / float64(count_L) && Q == float64(count_d - count_P1 - count_P2) / float64(count_L))
//@   before return#1: assert [arg1.quot] implies(count_L > 0, P1/k1 == g_R/(2.0*g_A*g_G)*P1)
//@   before return#1: assert [arg2.quot] implies(count_L > 0, P2/k2 == g_Y/(2.0*g_T*g_C)*P2)
//@   before return#1: assert [arg1] implies(count_L > 0, w1 == tn93arg1(P1, Q, g_A, g_G, g_R))
//@   before return#1: assert [arg2] implies(count_L > 0, w2 == tn93arg2(P2, Q, g_C, g_T, g_Y))
//@   before return#1: assert [arg3] implies(count_L > 0, w3 == tn93arg3(Q, g_R, g_Y))
//@   before return#1: assert [coef] k1 == tn93c1(g_A, g_G, g_R) && k2 == tn93c2(g_C, g_T, g_Y) && k3 == tn93c3(g_A, g_C, g_G, g_T, g_R, g_Y)
//@   ensures [eq7] implies(count(k, 0, len(target.Seq), (query.Seq[k] & target.Seq[k]) < 16 && (query.Seq[k] & 8) == 8 && (target.Seq[k] & 8) == 8) + count(k, 0, len(target.Seq), (query.Seq[k] & 8) == 8 && query.Seq[k] == target.Seq[k]) > 0, isnan(result) || result == -k1*log(w1) - k2*log(w2) - k3*log(w3))
