#!/usr/bin/env python3
"""Regenerates /verif/MANIFEST.json from tools/manifest_src.json + properties.jsonl (keeps it schema-valid)."""
import json, os, subprocess
V = os.path.dirname(os.path.dirname(os.path.abspath(__file__)))
src = json.load(open(os.path.join(V, 'tools', 'manifest_src.json')))
props = [json.loads(l)['id'] for l in open(os.path.join(V, 'properties.jsonl'))]
checks = []
claimed = set()
for pid in props:
    c = src['checks'].get(pid)
    if not c:
        continue
    claimed.add(pid)
    checks.append({
        "property_id": pid,
        "quick_cmd": f"bin/gfverify check --property {pid} --tier quick",
        "thorough_cmd": f"bin/gfverify check --property {pid} --tier thorough",
        "evidence_file": f"/verif/evidence/{pid}.json",
        "replay_cmd_template": "bin/gfverify replay {path}",
        "engine": "gfverify",
        "level_claimed": {"category": "proof", "text": c['text'], "design_ref": c.get('design_ref', 'DESIGN.md section 7')},
        "level_note": c['note'],
        "technique": c.get('technique', "contract-based deductive verification: weakest-precondition style VCs generated from the typed Go AST of /repo, discharged by z3/cvc5"),
    })
na = [{"property_id": p, "reason": src['not_applicable'].get(p, "check not built yet (engine under construction); planned per DESIGN.md section 7")} for p in props if p not in claimed]
commits = src.get('hook_commits', [])
try:
    # the hook commits are the commits of /repo whose subject starts with "verif:" (contract files, build tag verif)
    out = subprocess.check_output(["git", "-C", "/repo", "log", "--format=%H", "--grep=^verif:"], text=True).split()
    if out:
        commits = list(reversed(out))
except Exception:
    pass
m = {
    "version": 1,
    "setup_cmd": "cd /verif/engine && GOFLAGS=-mod=mod GOPROXY=off GOSUMDB=off GOTOOLCHAIN=local go build -o ../bin/gfverify .",
    "hooks": {"guard": "verif",
              "enable": "go build -tags verif: the only hook files are pkg/*/zz_verif_contracts.go (//go:build verif, comment-only //@ contracts read by gfverify)",
              "baseline_off_cmd": "cd /repo && go test -vet=off -count=1 -timeout 25m ./...",
              "source_commits": commits, "add_only": True},
    "engines": [{"name": "gfverify", "path": "/verif/engine", "serves_properties": sorted(claimed),
                 "kind_free_text": "contract-based deductive verifier for a Go subset: VCs generated from the typed AST of /repo's working tree on every run, contracts in //@ comment files, obligations discharged by z3 5.1 / z3 4.8 / cvc5 1.0; failing obligations replayed on the real code through go test -overlay oracles"}],
    "checks": checks,
    "notes": src.get('notes', ''),
    "not_applicable": na,
}
json.dump(m, open(os.path.join(V, 'MANIFEST.json'), 'w'), indent=1)
print("checks:", len(checks), "not_applicable:", len(na))
