// gfv:dir pkg/updown
//
// Oracle for the CSV input path of updown topranking (C09 / C18), from the property statements: one record per data
// row, in file order, carrying its row ordinal as input index (so results land in one slot per query); an empty CSV or
// one that is not `updown list` output is refused with an error - never accepted, never a panic.
package updown

import (
	"encoding/json"
	"fmt"
	"os"
	"strings"
	"testing"
)

type verifCSVIn struct {
	CSV string `json:"csv"`
}

const verifHdr = "query,SNPs,ambiguities,SNPcount,ambcount\n"

func verifCheckCSV(in verifCSVIn) (ok bool, detail string) {
	defer func() {
		if r := recover(); r != nil {
			ok, detail = false, fmt.Sprintf("readCSVToUDLList panics on %q: %v", in.CSV, r)
		}
	}()
	ls, err := readCSVToUDLList(strings.NewReader(in.CSV))
	wellFormed := strings.HasPrefix(in.CSV, verifHdr)
	rows := 0
	if wellFormed {
		for _, ln := range strings.Split(strings.TrimPrefix(in.CSV, verifHdr), "\n") {
			if ln == "" {
				continue
			}
			rows++
			f := strings.Split(ln, ",")
			if len(f) != 5 {
				wellFormed = false
				break
			}
			if f[1] != "" {
				for _, tok := range strings.Split(f[1], "|") {
					if len(tok) < 3 {
						wellFormed = false
					}
				}
			}
		}
	}
	if !wellFormed || in.CSV == "" {
		if err == nil {
			return false, fmt.Sprintf("readCSVToUDLList accepts %q (%d records) although it is empty or not `updown list` output", in.CSV, len(ls))
		}
		return true, ""
	}
	if err != nil {
		return true, "" // numeric parse errors etc. are refusals, fine
	}
	if len(ls) != rows {
		return false, fmt.Sprintf("readCSVToUDLList(%q) returns %d records for %d rows", in.CSV, len(ls), rows)
	}
	for i, l := range ls {
		if l.idx != i {
			return false, fmt.Sprintf("readCSVToUDLList(%q): record %d (%s) has input index %d, want %d", in.CSV, i, l.id, l.idx, i)
		}
	}
	// the channel reader on the same text
	cud := make(chan updownLine, 64)
	cerr := make(chan error, 4)
	cdone := make(chan bool, 1)
	readCSVToUDLChan(strings.NewReader(in.CSV), cud, cerr, cdone)
	if len(cerr) == 0 && len(cud) != rows {
		return false, fmt.Sprintf("readCSVToUDLChan(%q) yields %d records for %d rows", in.CSV, len(cud), rows)
	}
	return true, ""
}

func TestVerifOracle(t *testing.T) {
	report := func(in verifCSVIn, detail string) {
		b, _ := json.Marshal(map[string]interface{}{"input": in, "detail": detail})
		fmt.Println("GFV-FAIL " + string(b))
	}
	if s := os.Getenv("GFV_INPUT"); s != "" {
		var in verifCSVIn
		if err := json.Unmarshal([]byte(s), &in); err != nil {
			t.Fatal(err)
		}
		if ok, d := verifCheckCSV(in); !ok {
			report(in, d)
		}
		return
	}
	rowsPool := []string{"q1,A1T,,1,0", "q2,,2-3,0,2", "q3,A1T|C5G,7,2,1", "q4,,,0,0", "q5,A,,1,0", "q6,|,,1,0", "q7,A1T,x,1,0"}
	n := 0
	var cases []string
	cases = append(cases, "", "\n", "query,SNPs\n", verifHdr)
	for k := 1; k <= 3; k++ {
		total := 1
		for i := 0; i < k; i++ {
			total *= len(rowsPool)
		}
		for code := 0; code < total; code++ {
			c := code
			txt := verifHdr
			for i := 0; i < k; i++ {
				txt += rowsPool[c%len(rowsPool)] + "\n"
				c /= len(rowsPool)
			}
			cases = append(cases, txt)
		}
	}
	for _, txt := range cases {
		n++
		// the channel reader must not panic either
		func() {
			defer func() {
				if r := recover(); r != nil {
					report(verifCSVIn{txt}, fmt.Sprintf("readCSVToUDLChan panics on %q: %v", txt, r))
					n = -1
				}
			}()
			cud := make(chan updownLine, 64)
			cerr := make(chan error, 4)
			cdone := make(chan bool, 1)
			readCSVToUDLChan(strings.NewReader(txt), cud, cerr, cdone)
			if txt == "" && len(cerr) == 0 {
				report(verifCSVIn{txt}, "readCSVToUDLChan accepts an empty CSV")
				n = -1
			}
		}()
		if n < 0 {
			return
		}
		if ok, d := verifCheckCSV(verifCSVIn{txt}); !ok {
			report(verifCSVIn{txt}, d)
			return
		}
	}
	fmt.Printf("GFV-DONE %d CSV texts (empty, header only, bad header, 1..3 rows from a pool of 7 well- and ill-formed rows)\n", n)
}
