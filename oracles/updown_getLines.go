// gfv:dir pkg/updown
//
// Oracle for C10 (from the property statement): each updown list row has as ambiguity ranges exactly the maximal runs of
// non-A/C/G/T columns (1-based, inclusive), as SNP list exactly the A/C/G/T columns whose base is not in the reference
// symbol's set, and SNPcount / ambcount equal to the number of listed SNPs / of ambiguous columns.
package updown

import (
	"encoding/json"
	"fmt"
	"math/rand"
	"os"
	"strconv"
	"testing"
	"time"

	"github.com/virus-evolution/gofasta/pkg/encoding"
	"github.com/virus-evolution/gofasta/pkg/fastaio"
)

type verifGLIn struct {
	Ref   string `json:"ref"`
	Query string `json:"query"`
}

var verifSets = map[byte]string{'A': "A", 'C': "C", 'G': "G", 'T': "T", 'R': "AG", 'Y': "CT", 'S': "CG", 'W': "AT", 'K': "GT", 'M': "AC", 'B': "CGT", 'D': "AGT", 'H': "ACT", 'V': "ACG", 'N': "ACGT", '-': "ACGT", '?': "ACGT"}

func verifCheckGL(in verifGLIn) (ok bool, detail string) {
	if len(in.Ref) != len(in.Query) {
		return true, ""
	}
	EA := encoding.MakeEncodingArray()
	enc := func(s string) []byte {
		b := make([]byte, len(s))
		for i := range s {
			b[i] = EA[s[i]]
		}
		return b
	}
	cFR := make(chan fastaio.EncodedFastaRecord, 1)
	cUD := make(chan updownLine, 1)
	cErr := make(chan error, 4)
	cFR <- fastaio.EncodedFastaRecord{ID: "q", Seq: enc(in.Query), Idx: 0}
	close(cFR)
	defer func() {
		if r := recover(); r != nil {
			ok, detail = false, fmt.Sprintf("getLines panics on ref=%q query=%q: %v", in.Ref, in.Query, r)
		}
	}()
	getLines(enc(in.Ref), cFR, cUD, cErr)
	if len(cUD) != 1 {
		return false, "no line produced"
	}
	l := <-cUD
	var wantSnps []string
	var wantPos, wantAmbs []int
	ambCount := 0
	start := -1
	for i := 0; i < len(in.Query); i++ {
		q := in.Query[i]
		if q == 'A' || q == 'C' || q == 'G' || q == 'T' {
			if start >= 0 {
				wantAmbs = append(wantAmbs, start+1, i)
				start = -1
			}
			in_set := false
			for j := 0; j < len(verifSets[in.Ref[i]]); j++ {
				if verifSets[in.Ref[i]][j] == q {
					in_set = true
				}
			}
			if !in_set {
				wantSnps = append(wantSnps, string(in.Ref[i])+strconv.Itoa(i+1)+string(q))
				wantPos = append(wantPos, i+1)
			}
		} else {
			ambCount++
			if start < 0 {
				start = i
			}
		}
	}
	if start >= 0 {
		wantAmbs = append(wantAmbs, start+1, len(in.Query))
	}
	got := fmt.Sprint(l.snps, l.snpsPos, l.ambs, l.snpCount, l.ambCount)
	want := fmt.Sprint(wantSnps, wantPos, wantAmbs, len(wantSnps), ambCount)
	if fmt.Sprint(append([]string{}, l.snps...)) != fmt.Sprint(append([]string{}, wantSnps...)) || fmt.Sprint(append([]int{}, l.snpsPos...)) != fmt.Sprint(append([]int{}, wantPos...)) || fmt.Sprint(append([]int{}, l.ambs...)) != fmt.Sprint(append([]int{}, wantAmbs...)) || l.snpCount != len(wantSnps) || l.ambCount != ambCount {
		return false, fmt.Sprintf("getLines(ref=%q, query=%q): snps/positions/ranges/counts = %s, the property requires %s", in.Ref, in.Query, got, want)
	}
	return true, ""
}

func TestVerifOracle(t *testing.T) {
	report := func(in verifGLIn, detail string) {
		b, _ := json.Marshal(map[string]interface{}{"input": in, "detail": detail})
		fmt.Println("GFV-FAIL " + string(b))
	}
	if s := os.Getenv("GFV_INPUT"); s != "" {
		var in verifGLIn
		if err := json.Unmarshal([]byte(s), &in); err != nil {
			t.Fatal(err)
		}
		if ok, d := verifCheckGL(in); !ok {
			report(in, d)
		}
		return
	}
	budget, _ := strconv.Atoi(os.Getenv("GFV_BUDGET_MS"))
	if budget == 0 {
		budget = 5000
	}
	deadline := time.Now().Add(time.Duration(budget) * time.Millisecond)
	qs := []byte{'A', 'C', 'N', '-', 'R'}
	rs := []byte{'A', 'C', 'R'}
	n := 0
	for L := 0; L <= 5; L++ {
		tq, tr := 1, 1
		for i := 0; i < L; i++ {
			tq *= len(qs)
			tr *= len(rs)
		}
		for cr := 0; cr < tr; cr++ {
			for cq := 0; cq < tq; cq++ {
				r := make([]byte, L)
				q := make([]byte, L)
				a, b := cr, cq
				for i := 0; i < L; i++ {
					r[i] = rs[a%len(rs)]
					a /= len(rs)
					q[i] = qs[b%len(qs)]
					b /= len(qs)
				}
				in := verifGLIn{string(r), string(q)}
				n++
				if ok, d := verifCheckGL(in); !ok {
					report(in, d)
					return
				}
			}
		}
		if time.Now().After(deadline) {
			break
		}
	}
	seed, _ := strconv.ParseInt(os.Getenv("VERIF_SEED"), 10, 64)
	rng := rand.New(rand.NewSource(seed))
	all := []byte("ACGTRYSWKMBDHVN-?")
	for time.Now().Before(deadline) {
		L := 6 + rng.Intn(30)
		r := make([]byte, L)
		q := make([]byte, L)
		for i := range r {
			r[i] = "ACGT"[rng.Intn(4)]
			if rng.Intn(3) == 0 {
				q[i] = all[rng.Intn(len(all))]
			} else {
				q[i] = r[i]
			}
		}
		in := verifGLIn{string(r), string(q)}
		n++
		if ok, d := verifCheckGL(in); !ok {
			report(in, d)
			return
		}
	}
	fmt.Printf("GFV-DONE %d (all reference rows over {A,C,R} x query rows over {A,C,N,-,R} up to width 5, then seeded random)\n", n)
}
