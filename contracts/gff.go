//go:build verif

package gff

//@ func Feature.HasAttribute
//@   ensures result == in(F.Attributes, tag)
