// gfv:dir pkg/variants
//
// Oracle for C12/C04 on RegionsFromGFF (from the property statements): the list of coding regions is a deterministic
// function of the annotation (features with the same start keep their file order; no dependence on map iteration), and
// every reference position is either inside a returned (named) region or in the 'intergenic' list, so that no
// nucleotide difference can be dropped; C04/C14: rows sharing an ID are one feature, its positions the rows concatenated
// in file order.
package variants

import (
	"encoding/json"
	"fmt"
	"os"
	"strings"
	"testing"

	"github.com/virus-evolution/gofasta/pkg/gff"
)

type verifRGFeat struct {
	ID    string `json:"id"`
	Name  string `json:"name"` // "" = no Name attribute
	Start int    `json:"start"`
	End   int    `json:"end"`
}
type verifRGIn struct {
	Feats []verifRGFeat `json:"feats"`
	Runs  int           `json:"runs"`
}

const verifRGRef = "ATGGCTAAACGTATGGCTAAACGTATGGCTAAACGT" // 36

func verifRGBuild(in verifRGIn) gff.GFF {
	g := gff.GFF{}
	for _, f := range in.Feats {
		at := map[string][]string{}
		if f.ID != "" {
			at["ID"] = []string{f.ID}
		}
		if f.Name != "" {
			at["Name"] = []string{f.Name}
		}
		g.Features = append(g.Features, gff.Feature{Seqid: "ref", Type: "CDS", Start: f.Start, End: f.End, Strand: "+", Phase: 0, Attributes: at})
	}
	return g
}

func verifRGCheck(in verifRGIn) (bool, string) {
	first := ""
	runs := in.Runs
	if runs == 0 {
		runs = 15
	}
	for run := 0; run < runs; run++ {
		cds, inter, err := RegionsFromGFF(verifRGBuild(in), verifRGRef)
		if err != nil {
			return true, ""
		}
		var names []string
		for _, r := range cds {
			names = append(names, fmt.Sprintf("%s@%d", r.Name, r.Start))
		}
		sig := strings.Join(names, ",")
		if run == 0 {
			first = sig
			// coverage: every position is in a returned region or in inter
			cov := make([]bool, len(verifRGRef)+1)
			for _, r := range cds {
				for _, p := range r.Positions {
					cov[p] = true
				}
			}
			for _, p := range inter {
				cov[p] = true
			}
			for p := 1; p <= len(verifRGRef); p++ {
				if !cov[p] {
					return false, fmt.Sprintf("reference position %d is neither in a returned coding region nor in the intergenic list: a nucleotide change there can never be reported", p)
				}
			}
			// ties keep file order
			want := []string{}
			type nf struct {
				n string
				s int
			}
			var named []nf
			seen := map[string]bool{}
			for _, f := range in.Feats {
				if f.Name != "" && !seen[f.ID] {
					seen[f.ID] = true
					named = append(named, nf{f.Name, f.Start})
				}
			}
			for s := 0; s <= len(verifRGRef); s++ {
				for _, x := range named {
					if x.s == s {
						want = append(want, fmt.Sprintf("%s@%d", x.n, x.s))
					}
				}
			}
			// grouping (C04/C14): the rows that share an ID form ONE region whose positions are the rows' coordinates
			// concatenated in the order the rows are listed in the file (adjacent or not, ascending or not)
			idRows := map[string][]verifRGFeat{}
			var idOrder []string
			for _, f := range in.Feats {
				if _, ok := idRows[f.ID]; !ok {
					idOrder = append(idOrder, f.ID)
				}
				idRows[f.ID] = append(idRows[f.ID], f)
			}
			multi := false
			for _, id := range idOrder {
				rows := idRows[id]
				if len(rows) > 1 {
					multi = true
				}
				if rows[0].Name == "" {
					continue
				}
				sameName := 0
				for _, id2 := range idOrder {
					if idRows[id2][0].Name == rows[0].Name {
						sameName++
					}
				}
				if sameName > 1 {
					continue // two features with one name: regions cannot be told apart by name here
				}
				var wantPos []int
				lo := rows[0].Start
				for _, rw := range rows {
					for p := rw.Start; p <= rw.End; p++ {
						wantPos = append(wantPos, p)
					}
					if rw.Start < lo {
						lo = rw.Start
					}
				}
				n := 0
				for _, r := range cds {
					if r.Name == rows[0].Name {
						n++
						if fmt.Sprint(r.Positions) != fmt.Sprint(wantPos) {
							return false, fmt.Sprintf("feature %s (rows sharing ID %s, in file order): positions are %v, the rows concatenated in file order give %v", rows[0].Name, id, r.Positions, wantPos)
						}
					}
				}
				if n != 1 {
					return false, fmt.Sprintf("feature %s (ID %s, %d rows) comes out as %d regions; rows sharing an ID are one feature", rows[0].Name, id, len(rows), n)
				}
			}
			if multi {
				// with multi-row features the start of a feature is the smallest row start; the order check below is
				// written for single-row features only
				continue
			}
			if sig != strings.Join(want, ",") {
				return false, fmt.Sprintf("regions come out as [%s]; by start position, ties in file order, they are [%s]", sig, strings.Join(want, ","))
			}
		} else if sig != first {
			return false, fmt.Sprintf("two runs on the same annotation order the regions differently: [%s] vs [%s]", first, sig)
		}
	}
	return true, ""
}

func TestVerifOracle(t *testing.T) {
	report := func(in verifRGIn, detail string) {
		b, _ := json.Marshal(map[string]interface{}{"input": in, "detail": detail})
		fmt.Println("GFV-FAIL " + string(b))
	}
	if s := os.Getenv("GFV_INPUT"); s != "" {
		var in verifRGIn
		if err := json.Unmarshal([]byte(s), &in); err != nil {
			t.Fatal(err)
		}
		if ok, d := verifRGCheck(in); !ok {
			report(in, d)
		}
		return
	}
	n := 0
	spans := [][2]int{{1, 12}, {1, 6}, {13, 24}, {13, 18}, {25, 36}}
	names := []string{"", "geneA", "geneB"}
	for a := 0; a < len(spans); a++ {
		for b := 0; b < len(spans); b++ {
			for c := 0; c < len(spans); c++ {
				for na := 0; na < 3; na++ {
					for nb := 0; nb < 3; nb++ {
						for nc := 0; nc < 3; nc++ {
							in := verifRGIn{[]verifRGFeat{
								{"id1", names[na], spans[a][0], spans[a][1]},
								{"id2", names[nb], spans[b][0], spans[b][1]},
								{"id3", names[nc], spans[c][0], spans[c][1]}}, 15}
							if names[nc] != "" {
								in.Feats[2].Name = names[nc] + "c"
							}
							n++
							if ok, d := verifRGCheck(in); !ok {
								report(in, d)
								return
							}
						}
					}
				}
			}
		}
	}
	// rows sharing IDs: every assignment of 3..4 rows to the IDs {x, y}, rows on 6 non-overlapping spans in every order
	// (so: adjacent and interleaved rows, ascending and non-ascending)
	rowSpans := [][2]int{{1, 6}, {7, 12}, {13, 18}, {19, 24}, {25, 30}, {31, 36}}
	for nrows := 3; nrows <= 4; nrows++ {
		for assign := 0; assign < 1<<nrows; assign++ {
			var perm func(used []int)
			stop := false
			perm = func(used []int) {
				if stop {
					return
				}
				if len(used) == nrows {
					var feats []verifRGFeat
					for k, sp := range used {
						id, name := "x", "geneX"
						if assign>>k&1 == 1 {
							id, name = "y", "geneY"
						}
						feats = append(feats, verifRGFeat{id, name, rowSpans[sp][0], rowSpans[sp][1]})
					}
					in := verifRGIn{feats, 3}
					n++
					if ok, d := verifRGCheck(in); !ok {
						report(in, d)
						stop = true
					}
					return
				}
				for sp := 0; sp < len(rowSpans); sp++ {
					dup := false
					for _, u := range used {
						if u == sp {
							dup = true
						}
					}
					if !dup {
						perm(append(append([]int{}, used...), sp))
					}
				}
			}
			perm(nil)
			if stop {
				return
			}
		}
	}
	fmt.Printf("GFV-DONE %d (three single-row CDS features, named or unnamed, on 5 spans of a 36-base reference; plus 3..4 rows on 6 disjoint spans in every order under every assignment to two IDs - adjacent/interleaved, ascending/non-ascending; 15 resp. 3 runs each)\n", n)
}
