// gfv:dir pkg/variants
//
// Oracle for C12/C04 on RegionsFromGFF (from the property statements): the list of coding regions is a deterministic
// function of the annotation (features with the same start keep their file order; no dependence on map iteration), and
// every reference position is either inside a returned (named) region or in the 'intergenic' list, so that no
// nucleotide difference can be dropped.
package variants

import (
	"encoding/json"
	"fmt"
	"os"
	"strings"
	"testing"

	"github.com/virus-evolution/gofasta/pkg/gff"
)

type verifRGFeat struct {
	ID    string `json:"id"`
	Name  string `json:"name"` // "" = no Name attribute
	Start int    `json:"start"`
	End   int    `json:"end"`
}
type verifRGIn struct {
	Feats []verifRGFeat `json:"feats"`
}

const verifRGRef = "ATGGCTAAACGTATGGCTAAACGTATGGCTAAACGT" // 36

func verifRGBuild(in verifRGIn) gff.GFF {
	g := gff.GFF{}
	for _, f := range in.Feats {
		at := map[string][]string{}
		if f.ID != "" {
			at["ID"] = []string{f.ID}
		}
		if f.Name != "" {
			at["Name"] = []string{f.Name}
		}
		g.Features = append(g.Features, gff.Feature{Seqid: "ref", Type: "CDS", Start: f.Start, End: f.End, Strand: "+", Phase: 0, Attributes: at})
	}
	return g
}

func verifRGCheck(in verifRGIn) (bool, string) {
	first := ""
	for run := 0; run < 15; run++ {
		cds, inter, err := RegionsFromGFF(verifRGBuild(in), verifRGRef)
		if err != nil {
			return true, ""
		}
		var names []string
		for _, r := range cds {
			names = append(names, fmt.Sprintf("%s@%d", r.Name, r.Start))
		}
		sig := strings.Join(names, ",")
		if run == 0 {
			first = sig
			// coverage: every position is in a returned region or in inter
			cov := make([]bool, len(verifRGRef)+1)
			for _, r := range cds {
				for _, p := range r.Positions {
					cov[p] = true
				}
			}
			for _, p := range inter {
				cov[p] = true
			}
			for p := 1; p <= len(verifRGRef); p++ {
				if !cov[p] {
					return false, fmt.Sprintf("reference position %d is neither in a returned coding region nor in the intergenic list: a nucleotide change there can never be reported", p)
				}
			}
			// ties keep file order
			want := []string{}
			type nf struct {
				n string
				s int
			}
			var named []nf
			seen := map[string]bool{}
			for _, f := range in.Feats {
				if f.Name != "" && !seen[f.ID] {
					seen[f.ID] = true
					named = append(named, nf{f.Name, f.Start})
				}
			}
			for s := 0; s <= len(verifRGRef); s++ {
				for _, x := range named {
					if x.s == s {
						want = append(want, fmt.Sprintf("%s@%d", x.n, x.s))
					}
				}
			}
			if sig != strings.Join(want, ",") {
				return false, fmt.Sprintf("regions come out as [%s]; by start position, ties in file order, they are [%s]", sig, strings.Join(want, ","))
			}
		} else if sig != first {
			return false, fmt.Sprintf("two runs on the same annotation order the regions differently: [%s] vs [%s]", first, sig)
		}
	}
	return true, ""
}

func TestVerifOracle(t *testing.T) {
	report := func(in verifRGIn, detail string) {
		b, _ := json.Marshal(map[string]interface{}{"input": in, "detail": detail})
		fmt.Println("GFV-FAIL " + string(b))
	}
	if s := os.Getenv("GFV_INPUT"); s != "" {
		var in verifRGIn
		if err := json.Unmarshal([]byte(s), &in); err != nil {
			t.Fatal(err)
		}
		if ok, d := verifRGCheck(in); !ok {
			report(in, d)
		}
		return
	}
	n := 0
	spans := [][2]int{{1, 12}, {1, 6}, {13, 24}, {13, 18}, {25, 36}}
	names := []string{"", "geneA", "geneB"}
	for a := 0; a < len(spans); a++ {
		for b := 0; b < len(spans); b++ {
			for c := 0; c < len(spans); c++ {
				for na := 0; na < 3; na++ {
					for nb := 0; nb < 3; nb++ {
						for nc := 0; nc < 3; nc++ {
							in := verifRGIn{[]verifRGFeat{
								{"id1", names[na], spans[a][0], spans[a][1]},
								{"id2", names[nb], spans[b][0], spans[b][1]},
								{"id3", names[nc], spans[c][0], spans[c][1]}}}
							if names[nc] != "" {
								in.Feats[2].Name = names[nc] + "c"
							}
							n++
							if ok, d := verifRGCheck(in); !ok {
								report(in, d)
								return
							}
						}
					}
				}
			}
		}
	}
	fmt.Printf("GFV-DONE %d (three CDS features with IDs, each named or unnamed, on 5 spans of a 36-base reference; 15 runs each)\n", n)
}
