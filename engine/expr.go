package main

import (
	"fmt"
	"go/ast"
	"go/constant"
	"go/token"
	"go/types"
	"math/big"
	"strconv"
	"strings"
)

var tInt = types.Typ[types.Int]
var tBool = types.Typ[types.Bool]
var tByte = types.Typ[types.Uint8]
var tString = types.Typ[types.String]
var tFloat = types.Typ[types.Float64]
var tError = types.Universe.Lookup("error").Type()

// tWriter stands for io.Writer where the engine itself needs the type (os.Stdout / os.Stderr handles)
var tWriter = types.NewNamed(types.NewTypeName(token.NoPos, types.NewPackage("io", "io"), "Writer", nil), types.NewInterfaceType(nil, nil).Complete(), nil)

func (x *Exec) constVal(cv constant.Value, ty types.Type) Val {
	if ty == nil {
		return Val{C: cv}
	}
	if b, ok := ty.Underlying().(*types.Basic); ok && b.Info()&types.IsUntyped != 0 {
		switch b.Kind() {
		case types.UntypedBool:
			ty = tBool
		case types.UntypedString:
			ty = tString
		case types.UntypedFloat:
			ty = tFloat
		case types.UntypedNil:
			return Val{Nil: true}
		default:
			// untyped int/rune: keep untyped so that it adapts to the other operand
			return Val{C: cv}
		}
	}
	return x.materialize(Val{C: cv}, ty)
}

// materialize turns an untyped constant into a typed term.
func (x *Exec) materialize(v Val, ty types.Type) Val {
	if v.Nil {
		return Val{T: x.c.zero(ty), Ty: ty}
	}
	if v.C == nil {
		return v
	}
	switch {
	case isBool(ty):
		if constant.BoolVal(v.C) {
			return Val{T: "true", Ty: ty}
		}
		return Val{T: "false", Ty: ty}
	case isByte(ty):
		n, _ := constant.Int64Val(constant.ToInt(v.C))
		return Val{T: bvLit(n), Ty: ty}
	case isInt(ty):
		iv := constant.ToInt(v.C)
		if n, ok := constant.Int64Val(iv); ok {
			return Val{T: intLit(n), Ty: ty}
		}
		bi, _ := new(big.Int).SetString(iv.ExactString(), 10)
		if bi.Sign() < 0 {
			return Val{T: "(- " + new(big.Int).Neg(bi).String() + ")", Ty: ty}
		}
		return Val{T: bi.String(), Ty: ty}
	case isFloat(ty):
		f := constant.ToFloat(v.C)
		r, _ := new(big.Rat).SetString(f.ExactString())
		t := ""
		if r == nil {
			fv, _ := constant.Float64Val(f)
			t = strconv.FormatFloat(fv, 'f', -1, 64)
			if !strings.Contains(t, ".") {
				t += ".0"
			}
		} else {
			num := r.Num()
			neg := num.Sign() < 0
			if neg {
				num = new(big.Int).Neg(num)
			}
			t = "(/ " + num.String() + ".0 " + r.Denom().String() + ".0)"
			if r.IsInt() {
				t = num.String() + ".0"
			}
			if neg {
				t = "(- " + t + ")"
			}
		}
		return Val{T: "(mkF64 false " + t + ")", Ty: ty}
	case isString(ty):
		if v.C.Kind() == constant.String {
			return Val{T: x.c.strLit(constant.StringVal(v.C)), Ty: ty}
		}
	}
	panic(unsupported(fmt.Sprintf("constant %v as %v", v.C, ty)))
}

func (x *Exec) defaultType(v Val) Val {
	if v.Ty != nil || v.C == nil {
		return v
	}
	switch v.C.Kind() {
	case constant.Bool:
		return x.materialize(v, tBool)
	case constant.String:
		return x.materialize(v, tString)
	case constant.Float:
		return x.materialize(v, tFloat)
	}
	return x.materialize(v, tInt)
}

// ---------- identifiers ----------

func (x *Exec) lookupIdent(id *ast.Ident, st *State, env *Env) Val {
	name := id.Name
	if v, ok := env.names[name]; ok {
		return v
	}
	switch name {
	case "true":
		return Val{T: "true", Ty: tBool}
	case "false":
		return Val{T: "false", Ty: tBool}
	case "nil":
		return Val{Nil: true}
	}
	if env.info != nil {
		obj := env.info.Uses[id]
		if obj == nil {
			obj = env.info.Defs[id]
		}
		if obj != nil {
			return x.objVal(obj, st, id.Pos())
		}
	}
	// contract mode
	if v, ok := st.gh["g:"+name]; ok {
		return v
	}
	if obj := x.resolveName(name, env.scopePos); obj != nil {
		return x.objVal(obj, st, id.Pos())
	}
	panic(unsupported("unknown identifier " + name + " in contract/ghost expression"))
}

func (x *Exec) objVal(obj types.Object, st *State, pos token.Pos) Val {
	switch o := obj.(type) {
	case *types.Const:
		return x.constVal(o.Val(), o.Type())
	case *types.Var:
		if v, ok := st.vars[o]; ok {
			return v
		}
		if o.Pkg() != nil && o.Pkg().Path() == "os" && (o.Name() == "Stdout" || o.Name() == "Stderr") {
			return x.stdHandle(o.Name())
		}
		if o.Pkg() != nil && o.Parent() == o.Pkg().Scope() {
			// package-level variable: unknown value, stable within the function
			n := "glob_" + o.Pkg().Name() + "_" + o.Name()
			if !x.c.declared[n] {
				x.c.declare(n, fmt.Sprintf("(declare-fun %s () %s)", n, x.c.sortOf(o.Type())))
				// a package-level error variable initialised with errors.New / fmt.Errorf is non-nil (assuming it is never
				// reassigned, which is checked syntactically over the package)
				if isError(o.Type()) && x.g.errVarInitNonNil(o) {
					x.c.assumes = append(x.c.assumes, not(eq(n, "err.nil")))
					x.c.notes["package-level error variable "+o.Pkg().Name()+"."+o.Name()+" is initialised non-nil and never reassigned"] = true
				}
			}
			v := Val{T: n, Ty: o.Type()}
			return v
		}
		panic(unsupported("variable " + o.Name() + " has no value here"))
	case *types.Nil:
		return Val{Nil: true}
	}
	panic(unsupported("identifier kind " + obj.String()))
}

// resolveName finds the object for a source name visible at pos in the function under verification.
func (x *Exec) resolveName(name string, pos token.Pos) types.Object {
	pkg := x.fi.Pkg.Types
	if pos.IsValid() {
		sc := pkg.Scope().Innermost(pos)
		if sc != nil {
			if _, obj := sc.LookupParent(name, pos); obj != nil {
				// a universe or package-level object (builtin max, a function called like the local …) must not shadow a
				// variable of that name that was merely renamed
				if obj.Parent() == types.Universe || obj.Parent() == pkg.Scope() {
					if r := x.g.renameMap(x.fi)[name]; r != nil {
						x.c.notes["contract name "+name+" in "+x.fi.Key+" resolved to the renamed variable "+r.Name()+" (same declaration position and type as when the lock was written)"] = true
						return r
					}
				}
				return obj
			}
		}
	}
	// the name may be the former name of a variable declared several times in the function (loop counters): look for a
	// variable visible at pos whose recorded former name it is, innermost scope first
	if pos.IsValid() {
		if on := x.g.oldNames(x.fi); on != nil {
			for sc := pkg.Scope().Innermost(pos); sc != nil && sc != pkg.Scope(); sc = sc.Parent() {
				var best types.Object
				for _, nm := range sc.Names() {
					o := sc.Lookup(nm)
					if o != nil && on[o] == name && o.Name() != name && o.Pos() <= pos {
						if best == nil || o.Pos() > best.Pos() {
							best = o
						}
					}
				}
				if best != nil {
					x.c.notes["contract name "+name+" in "+x.fi.Key+" resolved to the renamed variable "+best.Name()+" (same declaration position and type as when the lock was written)"] = true
					return best
				}
			}
		}
	}
	// fall back: any variable of that name declared in the function (unique)
	var found types.Object
	n := 0
	for _, obj := range x.fi.localObjs {
		if obj.Name() == name {
			found = obj
			n++
		}
	}
	if n == 1 {
		return found
	}
	if obj := pkg.Scope().Lookup(name); obj != nil {
		return obj
	}
	// the contract still uses the name a variable had when the lock was written (pure rename)
	if obj := x.g.renameMap(x.fi)[name]; obj != nil {
		x.c.notes["contract name "+name+" in "+x.fi.Key+" resolved to the renamed variable "+obj.Name()+" (same declaration position and type as when the lock was written)"] = true
		return obj
	}
	return nil
}

// ---------- main evaluator ----------

func (x *Exec) eval(e ast.Expr, st *State, env *Env) Val {
	if env.info != nil {
		if tv, ok := env.info.Types[e]; ok && tv.Value != nil {
			return x.constVal(tv.Value, tv.Type)
		}
	}
	switch n := e.(type) {
	case *ast.ParenExpr:
		return x.eval(n.X, st, env)
	case *ast.BasicLit:
		switch n.Kind {
		case token.INT:
			return Val{C: constant.MakeFromLiteral(n.Value, token.INT, 0)}
		case token.FLOAT:
			return Val{C: constant.MakeFromLiteral(n.Value, token.FLOAT, 0)}
		case token.CHAR:
			return Val{C: constant.MakeFromLiteral(n.Value, token.CHAR, 0)}
		case token.STRING:
			s, _ := strconv.Unquote(n.Value)
			return Val{T: x.c.strLit(s), Ty: tString}
		}
	case *ast.Ident:
		return x.lookupIdent(n, st, env)
	case *ast.UnaryExpr:
		return x.evalUnary(n, st, env)
	case *ast.BinaryExpr:
		return x.evalBinary(n, st, env)
	case *ast.IndexExpr:
		return x.evalIndex(n, st, env)
	case *ast.SliceExpr:
		return x.evalSliceExpr(n, st, env)
	case *ast.SelectorExpr:
		return x.evalSelector(n, st, env)
	case *ast.StarExpr:
		return x.eval(n.X, st, env)
	case *ast.CallExpr:
		return x.evalCall(n, st, env)
	case *ast.CompositeLit:
		return x.evalComposite(n, st, env)
	}
	panic(unsupported(fmt.Sprintf("expression %T", e)))
}

func (x *Exec) evalUnary(n *ast.UnaryExpr, st *State, env *Env) Val {
	v := x.eval(n.X, st, env)
	switch n.Op {
	case token.ARROW:
		return x.recvFrom(v, st, n)
	case token.NOT:
		v = x.defaultType(v)
		return Val{T: not(v.T), Ty: tBool}
	case token.SUB:
		if v.Ty == nil && v.C != nil {
			return Val{C: constant.UnaryOp(token.SUB, v.C, 0)}
		}
		if isFloat(v.Ty) {
			return Val{T: app("f.neg", v.T), Ty: v.Ty}
		}
		if isInt(v.Ty) {
			return Val{T: app("-", v.T), Ty: v.Ty}
		}
	case token.ADD:
		return v
	case token.AND:
		return v // &x : pointers to locals are treated as the value itself (read-only use)
	}
	panic(unsupported("unary " + n.Op.String()))
}

func (x *Exec) evalBinary(n *ast.BinaryExpr, st *State, env *Env) Val {
	if n.Op == token.LAND || n.Op == token.LOR {
		l := x.defaultType(x.eval(n.X, st, env))
		// evaluate right operand under the short-circuit guard so that its safety obligations are guarded
		savePC := st.pc
		if n.Op == token.LAND {
			st.pc = x.namePC(and(savePC, l.T))
		} else {
			st.pc = x.namePC(and(savePC, not(l.T)))
		}
		r := x.defaultType(x.eval(n.Y, st, env))
		st.pc = savePC
		if n.Op == token.LAND {
			return Val{T: and(l.T, r.T), Ty: tBool}
		}
		return Val{T: or(l.T, r.T), Ty: tBool}
	}
	l := x.eval(n.X, st, env)
	r := x.eval(n.Y, st, env)
	return x.binop(n.Op, l, r, st, n)
}

func (x *Exec) binop(op token.Token, l, r Val, st *State, node ast.Node) Val {
	// nil comparisons
	if l.Nil || r.Nil {
		if l.Nil && r.Nil {
			panic(unsupported("nil op nil"))
		}
		if l.Nil {
			l, r = r, l
		}
		var t string
		switch {
		case isError(l.Ty):
			t = eq(l.T, "err.nil")
		default:
			switch l.Ty.Underlying().(type) {
			case *types.Slice:
				// a nil slice is modelled as a slice over array 0 with length 0 (len==0 && cap==0 suffices for the code base)
				t = and(eq(x.c.accessor("s.ref", l.T), "0"))
			case *types.Pointer, *types.Map, *types.Chan, *types.Interface, *types.Signature:
				panic(unsupported("nil comparison on " + l.Ty.String()))
			default:
				panic(unsupported("nil comparison on " + l.Ty.String()))
			}
		}
		if op == token.EQL {
			return Val{T: t, Ty: tBool}
		}
		if op == token.NEQ {
			return Val{T: not(t), Ty: tBool}
		}
		panic(unsupported("nil with op " + op.String()))
	}
	// constants
	if l.Ty == nil && r.Ty == nil && l.C != nil && r.C != nil {
		switch op {
		case token.EQL, token.NEQ, token.LSS, token.LEQ, token.GTR, token.GEQ:
			b := constant.Compare(l.C, op, r.C)
			if b {
				return Val{T: "true", Ty: tBool}
			}
			return Val{T: "false", Ty: tBool}
		case token.SHL, token.SHR:
			s, _ := constant.Uint64Val(r.C)
			return Val{C: constant.Shift(l.C, op, uint(s))}
		case token.QUO:
			if l.C.Kind() == constant.Int && r.C.Kind() == constant.Int {
				return Val{C: constant.BinaryOp(l.C, token.QUO_ASSIGN, r.C)}
			}
		}
		return Val{C: constant.BinaryOp(l.C, op, r.C)}
	}
	if op != token.SHL && op != token.SHR {
		if l.Ty == nil {
			l = x.materialize(l, r.Ty)
		}
		if r.Ty == nil {
			r = x.materialize(r, l.Ty)
		}
	} else {
		l = x.defaultType(l)
	}
	ty := l.Ty
	cmp := func(t string) Val { return Val{T: t, Ty: tBool} }
	switch {
	case isByte(ty):
		switch op {
		case token.AND:
			return Val{T: app("bvand", l.T, r.T), Ty: ty}
		case token.OR:
			return Val{T: app("bvor", l.T, r.T), Ty: ty}
		case token.XOR:
			return Val{T: app("bvxor", l.T, r.T), Ty: ty}
		case token.ADD:
			return Val{T: app("bvadd", l.T, r.T), Ty: ty}
		case token.SUB:
			return Val{T: app("bvsub", l.T, r.T), Ty: ty}
		case token.EQL:
			return cmp(eq(l.T, r.T))
		case token.NEQ:
			return cmp(not(eq(l.T, r.T)))
		case token.LSS:
			return cmp(app("bvult", l.T, r.T))
		case token.LEQ:
			return cmp(app("bvule", l.T, r.T))
		case token.GTR:
			return cmp(app("bvugt", l.T, r.T))
		case token.GEQ:
			return cmp(app("bvuge", l.T, r.T))
		case token.SHR:
			if r.C != nil {
				s, _ := constant.Int64Val(r.C)
				return Val{T: app("bvlshr", l.T, bvLit(s)), Ty: ty}
			}
		case token.SHL:
			if r.C != nil {
				s, _ := constant.Int64Val(r.C)
				return Val{T: app("bvshl", l.T, bvLit(s)), Ty: ty}
			}
		}
	case isInt(ty):
		switch op {
		case token.ADD:
			return Val{T: add(l.T, r.T), Ty: ty}
		case token.SUB:
			return Val{T: sub(l.T, r.T), Ty: ty}
		case token.MUL:
			return Val{T: app("*", l.T, r.T), Ty: ty}
		case token.QUO:
			x.safety("div0", node, st, not(eq(r.T, "0")), "divisor is not zero")
			return Val{T: app("godiv", l.T, r.T), Ty: ty}
		case token.REM:
			x.safety("div0", node, st, not(eq(r.T, "0")), "divisor is not zero")
			return Val{T: app("gomod", l.T, r.T), Ty: ty}
		case token.EQL:
			return cmp(eq(l.T, r.T))
		case token.NEQ:
			return cmp(not(eq(l.T, r.T)))
		case token.LSS:
			return cmp(app("<", l.T, r.T))
		case token.LEQ:
			return cmp(app("<=", l.T, r.T))
		case token.GTR:
			return cmp(app(">", l.T, r.T))
		case token.GEQ:
			return cmp(app(">=", l.T, r.T))
		case token.SHR:
			if r.C != nil {
				s, _ := constant.Int64Val(r.C)
				return Val{T: app("div", l.T, intLit(1<<uint(s))), Ty: ty}
			}
		case token.SHL:
			if r.C != nil {
				s, _ := constant.Int64Val(r.C)
				return Val{T: app("*", l.T, intLit(1<<uint(s))), Ty: ty}
			}
		case token.AND:
			// x & (2^k - 1) on non-negative x
			if m, ok := litInt(r.T); ok && m > 0 && (m&(m+1)) == 0 {
				return Val{T: app("mod", l.T, intLit(m+1)), Ty: ty}
			}
		}
	case isFloat(ty):
		switch op {
		case token.ADD:
			return Val{T: app("f.add", l.T, r.T), Ty: ty}
		case token.SUB:
			return Val{T: app("f.sub", l.T, r.T), Ty: ty}
		case token.MUL:
			return Val{T: app("f.mul", l.T, r.T), Ty: ty}
		case token.QUO:
			return Val{T: app("f.div", l.T, r.T), Ty: ty}
		case token.EQL:
			return cmp(app("f.eq", l.T, r.T))
		case token.NEQ:
			return cmp(not(app("f.eq", l.T, r.T)))
		case token.LSS:
			return cmp(app("f.lt", l.T, r.T))
		case token.LEQ:
			return cmp(app("f.le", l.T, r.T))
		case token.GTR:
			return cmp(app("f.lt", r.T, l.T))
		case token.GEQ:
			return cmp(app("f.le", r.T, l.T))
		}
	case isString(ty):
		switch op {
		case token.ADD:
			return Val{T: app("gs.cat", l.T, r.T), Ty: ty}
		case token.LSS:
			return cmp(app("gs.lt", l.T, r.T))
		case token.GTR:
			return cmp(app("gs.lt", r.T, l.T))
		case token.LEQ:
			return cmp(not(app("gs.lt", r.T, l.T)))
		case token.GEQ:
			return cmp(not(app("gs.lt", l.T, r.T)))
		case token.EQL:
			return cmp(eq(l.T, r.T))
		case token.NEQ:
			return cmp(not(eq(l.T, r.T)))
		}
	case isBool(ty):
		switch op {
		case token.EQL:
			return cmp(eq(l.T, r.T))
		case token.NEQ:
			return cmp(not(eq(l.T, r.T)))
		}
	default:
		switch op {
		case token.EQL:
			return cmp(eq(l.T, r.T))
		case token.NEQ:
			return cmp(not(eq(l.T, r.T)))
		}
	}
	panic(unsupported(fmt.Sprintf("binary %s on %s", op, ty)))
}

func litInt(t string) (int64, bool) {
	n, err := strconv.ParseInt(t, 10, 64)
	return n, err == nil
}

// safety obligations are generated only while executing real code (not inside contract expressions)
func (x *Exec) safety(kind string, node ast.Node, st *State, goal string, human string) {
	if x.c.inContract > 0 {
		return
	}
	ord := x.ord[node]
	x.oblige(kind, ord, node.Pos(), st, goal, human)
	// execution continues past this point only if the check passed
	x.c.assume(st.pc, goal)
}

func (x *Exec) toIndex(v Val, keySort string) string {
	// converts an index value to the array's index sort
	if v.Ty == nil {
		n, _ := constant.Int64Val(constant.ToInt(v.C))
		if keySort == sortBV8 {
			return bvLit(n)
		}
		return intLit(n)
	}
	if keySort == sortBV8 {
		if isByte(v.Ty) {
			return v.T
		}
		if h, args, ok := splitSexp(x.c.resolveDef(v.T)); ok && h == "rune.ofbyte" {
			return args[0] // ASCII rune of a byte: the byte itself (guarded by the ascii obligation below)
		}
		return app("(_ int2bv 8)", v.T)
	}
	if isByte(v.Ty) {
		return app("bv2nat", v.T)
	}
	return v.T
}

func (x *Exec) evalIndex(n *ast.IndexExpr, st *State, env *Env) Val {
	base := x.eval(n.X, st, env)
	if base.Seq != nil {
		idx := x.defaultType(x.eval(n.Index, st, env))
		return Val{T: app("select", base.Seq.Arr, idx.T), Ty: base.Seq.Elem}
	}
	if base.Ty == nil {
		panic(unsupported("index of untyped"))
	}
	switch u := base.Ty.Underlying().(type) {
	case *types.Slice:
		idx := x.defaultType(x.eval(n.Index, st, env))
		it := x.toIndex(idx, "Int")
		_, _, ln, _ := x.sliceParts(base)
		x.safety("index", n, st, and(app("<=", "0", it), app("<", it, ln)), "index in range")
		return x.sliceRead(st, base, it)
	case *types.Array:
		idxv := x.eval(n.Index, st, env)
		ks := "Int"
		if u.Len() == 256 {
			ks = sortBV8
		}
		it := x.toIndex(idxv, ks)
		if ks == "Int" {
			x.safety("index", n, st, and(app("<=", "0", it), app("<", it, intLit(u.Len()))), "index in range")
		} else if idxv.Ty != nil && !isByte(idxv.Ty) {
			if h, args, ok := splitSexp(x.c.resolveDef(idxv.T)); ok && h == "rune.ofbyte" {
				x.safety("index", n, st, app("bvult", args[0], "#x80"), "rune index in range (ASCII byte)")
			} else {
				x.safety("index", n, st, and(app("<=", "0", idxv.T), app("<", idxv.T, "256")), "index in range")
			}
		}
		return Val{T: app("select", base.T, it), Ty: u.Elem()}
	case *types.Map:
		if _, isFunc := u.Elem().Underlying().(*types.Signature); isFunc {
			panic(unsupported("closure table indexed outside a call"))
		}
		k := x.eval(n.Index, st, env)
		if k.Ty == nil {
			k = x.materialize(k, u.Key())
		}
		ms := x.c.mapSort(u)
		mv := Val{T: x.c.define("mapval", x.c.sortOf(u.Elem()), app("select", x.c.accessor("|"+ms+".val|", base.T), k.T)), Ty: u.Elem()}
		x.assumeWFAtom(st, mv)
		return mv
	case *types.Basic:
		if u.Info()&types.IsString != 0 {
			idx := x.defaultType(x.eval(n.Index, st, env))
			x.safety("index", n, st, and(app("<=", "0", idx.T), app("<", idx.T, app("gs.len", base.T))), "index in range")
			return Val{T: app("gs.at", base.T, idx.T), Ty: tByte}
		}
	case *types.Pointer:
		panic(unsupported("index through pointer"))
	}
	panic(unsupported("index on " + base.Ty.String()))
}

func (x *Exec) evalSliceExpr(n *ast.SliceExpr, st *State, env *Env) Val {
	base := x.eval(n.X, st, env)
	var lo, hi string
	lo = "0"
	if n.Low != nil {
		lo = x.defaultType(x.eval(n.Low, st, env)).T
	}
	if n.Slice3 {
		panic(unsupported("3-index slice"))
	}
	switch base.Ty.Underlying().(type) {
	case *types.Slice:
		ref, off, ln, cp := x.sliceParts(base)
		hi = ln
		if n.High != nil {
			hi = x.defaultType(x.eval(n.High, st, env)).T
		}
		x.safety("slice", n, st, and(app("<=", "0", lo), app("<=", lo, hi), app("<=", hi, cp)), "slice bounds in range (0 <= lo <= hi <= cap)")
		t := app("mkSlice", ref, add(off, lo), sub(hi, lo), sub(cp, lo))
		return Val{T: x.c.define("sl", sortSlice, t), Ty: base.Ty}
	case *types.Basic:
		if isString(base.Ty) {
			hi = app("gs.len", base.T)
			if n.High != nil {
				hi = x.defaultType(x.eval(n.High, st, env)).T
			}
			x.safety("slice", n, st, and(app("<=", "0", lo), app("<=", lo, hi), app("<=", hi, app("gs.len", base.T))), "string slice bounds in range")
			return Val{T: app("gs.sub", base.T, lo, hi), Ty: base.Ty}
		}
	}
	panic(unsupported("slice expression on " + base.Ty.String()))
}

func (x *Exec) evalSelector(n *ast.SelectorExpr, st *State, env *Env) Val {
	// package-qualified identifiers
	if id, ok := n.X.(*ast.Ident); ok {
		if env.info != nil {
			if _, isPkg := env.info.Uses[id].(*types.PkgName); isPkg {
				obj := env.info.Uses[n.Sel]
				if obj != nil {
					return x.objVal(obj, st, n.Pos())
				}
			}
		} else if id.Name == "os" && (n.Sel.Name == "Stdout" || n.Sel.Name == "Stderr") {
			return x.stdHandle(n.Sel.Name)
		} else if id.Name == "math" {
			switch n.Sel.Name {
			case "MaxInt", "MaxInt64":
				return Val{T: "9223372036854775807", Ty: tInt}
			case "MaxInt32":
				return Val{T: "2147483647", Ty: tInt}
			}
		}
	}
	base := x.eval(n.X, st, env)
	if base.Ty == nil {
		panic(unsupported("selector on untyped"))
	}
	bt := base.Ty
	if p, ok := bt.Underlying().(*types.Pointer); ok {
		bt = p.Elem()
	}
	if s, ok := bt.Underlying().(*types.Struct); ok {
		sortName := x.c.sortOf(bt)
		for i := 0; i < s.NumFields(); i++ {
			if s.Field(i).Name() == n.Sel.Name {
				v := Val{T: x.c.structGet(sortName, n.Sel.Name, base.T), Ty: s.Field(i).Type()}
				if _, isSl := v.Ty.Underlying().(*types.Slice); isSl && isAtom(v.T) {
					x.assumeWF(st, v)
				}
				return v
			}
		}
		// embedded fields (one level)
		for i := 0; i < s.NumFields(); i++ {
			f := s.Field(i)
			if f.Embedded() {
				if es, ok := f.Type().Underlying().(*types.Struct); ok {
					for j := 0; j < es.NumFields(); j++ {
						if es.Field(j).Name() == n.Sel.Name {
							inner := x.c.structGet(sortName, f.Name(), base.T)
							return Val{T: x.c.structGet(x.c.sortOf(f.Type()), n.Sel.Name, inner), Ty: es.Field(j).Type()}
						}
					}
				}
			}
		}
	}
	panic(unsupported("selector ." + n.Sel.Name + " on " + base.Ty.String()))
}

func (x *Exec) evalComposite(n *ast.CompositeLit, st *State, env *Env) Val {
	var ty types.Type
	if env.info != nil {
		ty = env.info.TypeOf(n)
	} else {
		ty = x.resolveTypeExpr(n.Type, env)
	}
	switch u := ty.Underlying().(type) {
	case *types.Struct:
		sortName := x.c.sortOf(ty)
		si := x.c.structs[sortName]
		vals := make([]string, len(si.fields))
		for i := range si.fields {
			if si.fsorts[i] == "Int" && !isInt(si.ftypes[i]) {
				vals[i] = "0"
			} else {
				vals[i] = x.c.zero(si.ftypes[i])
			}
		}
		for i, el := range n.Elts {
			if kv, ok := el.(*ast.KeyValueExpr); ok {
				fname := kv.Key.(*ast.Ident).Name
				for j, f := range si.fields {
					if f == fname {
						v := x.eval(kv.Value, st, env)
						if v.Ty == nil {
							v = x.materialize(v, si.ftypes[j])
						}
						vals[j] = v.T
					}
				}
			} else {
				v := x.eval(el, st, env)
				if v.Ty == nil {
					v = x.materialize(v, si.ftypes[i])
				}
				vals[i] = v.T
			}
		}
		return Val{T: app(si.ctor, vals...), Ty: ty}
	case *types.Slice:
		es := x.c.sortOf(u.Elem())
		contents := x.constArray(es, x.c.zero(u.Elem()))
		for i, el := range n.Elts {
			if _, ok := el.(*ast.KeyValueExpr); ok {
				panic(unsupported("keyed slice literal"))
			}
			v := x.eval(el, st, env)
			if v.Ty == nil {
				v = x.materialize(v, u.Elem())
			}
			contents = app("store", contents, intLit(int64(i)), v.T)
		}
		ref := x.allocArray(st, es, contents)
		k := intLit(int64(len(n.Elts)))
		return Val{T: app("mkSlice", ref, "0", k, k), Ty: ty}
	case *types.Map:
		if len(n.Elts) == 0 {
			return Val{T: x.c.zero(ty), Ty: ty}
		}
	case *types.Array:
		es := x.c.sortOf(u.Elem())
		ks := "Int"
		if u.Len() == 256 {
			ks = sortBV8
		}
		t := x.c.constArray(ks, es, x.c.zero(u.Elem()))
		for i, el := range n.Elts {
			if _, ok := el.(*ast.KeyValueExpr); ok {
				panic(unsupported("keyed array literal"))
			}
			v := x.eval(el, st, env)
			if v.Ty == nil {
				v = x.materialize(v, u.Elem())
			}
			idx := intLit(int64(i))
			if ks == sortBV8 {
				idx = bvLit(int64(i))
			}
			t = app("store", t, idx, v.T)
		}
		return Val{T: t, Ty: ty}
	}
	panic(unsupported("composite literal of " + ty.String()))
}

// resolveTypeExpr resolves a type expression in contract/ghost code.
func (x *Exec) resolveTypeExpr(e ast.Expr, env *Env) types.Type {
	switch n := e.(type) {
	case *ast.Ident:
		switch n.Name {
		case "int":
			return tInt
		case "int64":
			return types.Typ[types.Int64]
		case "byte", "uint8":
			return tByte
		case "bool":
			return tBool
		case "string":
			return tString
		case "float64":
			return tFloat
		case "error":
			return tError
		}
		if obj := x.fi.Pkg.Types.Scope().Lookup(n.Name); obj != nil {
			if tn, ok := obj.(*types.TypeName); ok {
				return tn.Type()
			}
		}
	case *ast.ArrayType:
		et := x.resolveTypeExpr(n.Elt, env)
		if n.Len == nil {
			return types.NewSlice(et)
		}
		if bl, ok := n.Len.(*ast.BasicLit); ok {
			k, _ := strconv.ParseInt(bl.Value, 10, 64)
			return types.NewArray(et, k)
		}
	case *ast.SelectorExpr:
		if id, ok := n.X.(*ast.Ident); ok {
			path := ""
			for _, f := range x.fi.Pkg.Syntax {
				for _, is := range f.Imports {
					if is.Name != nil && is.Name.Name == id.Name {
						path = strings.Trim(is.Path.Value, `"`)
					}
				}
			}
			for _, imp := range x.fi.Pkg.Types.Imports() {
				if imp.Name() == id.Name || imp.Path() == path {
					if obj := imp.Scope().Lookup(n.Sel.Name); obj != nil {
						return obj.Type()
					}
				}
			}
		}
	case *ast.MapType:
		return types.NewMap(x.resolveTypeExpr(n.Key, env), x.resolveTypeExpr(n.Value, env))
	}
	panic(unsupported(fmt.Sprintf("type expression %T in contract", e)))
}

func (x *Exec) resolveTypeText(txt string) types.Type {
	e, err := parseExprText(txt)
	if err != nil {
		panic(unsupported("type " + txt))
	}
	return x.resolveTypeExpr(e, &Env{})
}

// stdHandle: os.Stdout / os.Stderr as opaque writer handles (process-wide streams; ghost state written:/failed: like any
// io.Writer, initialised at function entry when the body mentions them)
func (x *Exec) stdHandle(name string) Val {
	n := "glob_os_" + name
	if !x.c.declared[n] {
		x.c.declare(n, fmt.Sprintf("(declare-fun %s () Int)", n))
	}
	return Val{T: n, Ty: tWriter}
}
