// gfv:dir pkg/closest
//
// Oracle for C06 (from the property statement): closest / closest -n K return the first K targets of the target file
// ordered by ascending distance, then descending completeness, then file position; a target whose distance is
// undefined (no jointly resolved site: raw = 0/0) never displaces one whose distance is defined.
package closest

import (
	"encoding/json"
	"fmt"
	"math"
	"os"
	"sort"
	"strings"
	"testing"

	"github.com/virus-evolution/gofasta/pkg/encoding"
	"github.com/virus-evolution/gofasta/pkg/fastaio"
)

type verifCIn struct {
	Query   string   `json:"query"`
	Targets []string `json:"targets"`
	K       int      `json:"k"`
}

func verifEFR(id string, s string, idx int) fastaio.EncodedFastaRecord {
	EA := encoding.MakeEncodingArray()
	SA := encoding.MakeEncodedScoreArray()
	r := fastaio.EncodedFastaRecord{ID: id, Idx: idx, Seq: make([]byte, len(s))}
	for i := range s {
		r.Seq[i] = EA[s[i]]
		r.Score += SA[EA[s[i]]]
	}
	return r
}

func verifRaw(q, t string) float64 {
	n, s := 0, 0
	sets := map[byte]string{'A': "A", 'C': "C", 'G': "G", 'T': "T", 'N': "ACGT", 'R': "AG", '-': "ACGT"}
	for i := range q {
		a, b := sets[q[i]], sets[t[i]]
		if !strings.ContainsAny(a, b) {
			n++
		} else if len(a) == 1 && a == b {
			s++
		}
	}
	return float64(n) / float64(n+s)
}

func verifCheckC(in verifCIn) (bool, string) {
	for _, t := range in.Targets {
		if len(t) != len(in.Query) {
			return true, ""
		}
	}
	q := verifEFR("q", in.Query, 0)
	type cand struct {
		name string
		d    float64
		sc   int64
		pos  int
	}
	var cs []cand
	for i, t := range in.Targets {
		r := verifEFR(fmt.Sprintf("t%d", i), t, i)
		cs = append(cs, cand{r.ID, verifRaw(in.Query, t), r.Score, i})
	}
	sort.SliceStable(cs, func(i, j int) bool {
		a, b := cs[i], cs[j]
		an, bn := math.IsNaN(a.d), math.IsNaN(b.d)
		if an != bn {
			return !an
		}
		if !an && a.d != b.d {
			return a.d < b.d
		}
		if a.sc != b.sc {
			return a.sc > b.sc
		}
		return a.pos < b.pos
	})
	// single closest
	cIn := make(chan fastaio.EncodedFastaRecord, len(in.Targets))
	cOut := make(chan resultsStruct, 1)
	for i, t := range in.Targets {
		cIn <- verifEFR(fmt.Sprintf("t%d", i), t, i)
	}
	close(cIn)
	findClosest(q, "raw", cIn, cOut)
	got := <-cOut
	if len(cs) > 0 && got.tname != cs[0].name {
		return false, fmt.Sprintf("findClosest(query=%q, targets=%q) returns %s (distance %v), the documented order puts %s (distance %v) first", in.Query, in.Targets, got.tname, got.distance, cs[0].name, cs[0].d)
	}
	if in.K >= 1 {
		cIn2 := make(chan fastaio.EncodedFastaRecord, len(in.Targets))
		cOut2 := make(chan catchmentStruct, 1)
		for i, t := range in.Targets {
			cIn2 <- verifEFR(fmt.Sprintf("t%d", i), t, i)
		}
		close(cIn2)
		findClosestN(q, in.K, -1.0, "raw", cIn2, cOut2)
		res := <-cOut2
		var names, want []string
		for _, r := range res.catchment {
			names = append(names, r.tname)
		}
		for i := 0; i < in.K && i < len(cs); i++ {
			want = append(want, cs[i].name)
		}
		if fmt.Sprint(names) != fmt.Sprint(want) {
			return false, fmt.Sprintf("findClosestN(query=%q, targets=%q, n=%d) returns %v, the documented order gives %v", in.Query, in.Targets, in.K, names, want)
		}
	}
	return true, ""
}

func TestVerifOracle(t *testing.T) {
	report := func(in verifCIn, detail string) {
		b, _ := json.Marshal(map[string]interface{}{"input": in, "detail": detail})
		fmt.Println("GFV-FAIL " + string(b))
	}
	if s := os.Getenv("GFV_INPUT"); s != "" {
		var in verifCIn
		if err := json.Unmarshal([]byte(s), &in); err != nil {
			t.Fatal(err)
		}
		if ok, d := verifCheckC(in); !ok {
			report(in, d)
		}
		return
	}
	pool := []string{"AC", "AN", "NN", "CC", "AA", "NC", "CA"}
	n := 0
	for _, q := range []string{"AC", "AA", "AN"} {
		for nt := 1; nt <= 4; nt++ {
			total := 1
			for i := 0; i < nt; i++ {
				total *= len(pool)
			}
			for code := 0; code < total; code++ {
				var ts []string
				c := code
				for i := 0; i < nt; i++ {
					ts = append(ts, pool[c%len(pool)])
					c /= len(pool)
				}
				for k := 1; k <= 3; k++ {
					in := verifCIn{q, ts, k}
					n++
					if ok, d := verifCheckC(in); !ok {
						report(in, d)
						return
					}
				}
			}
		}
	}
	fmt.Printf("GFV-DONE %d (3 queries x 1..4 targets from a pool of 7 two-column sequences incl. all-N, n = 1..3)\n", n)
}
