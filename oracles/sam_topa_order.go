// gfv:dir pkg/sam
//
// Oracle for C12 on `sam toPairAlign -o stdout` (from the property statement): whatever order the worker threads deliver
// the pairs in, the records written to stdout are in input order (by idx), each as >ref / row / >query / row.
package sam

import (
	"encoding/json"
	"fmt"
	"io"
	"os"
	"strings"
	"testing"
)

type verifOrdIn struct {
	Arrival []int `json:"arrival"` // idx values in the order the pairs arrive
	OmitRef bool  `json:"omit_ref"`
}

func verifOrdRun(in verifOrdIn) string {
	cPair := make(chan alignPair, len(in.Arrival))
	cDone := make(chan bool, 1)
	cErr := make(chan error, 4*len(in.Arrival)+4)
	for _, i := range in.Arrival {
		cPair <- alignPair{ref: []byte("AC-GT"), query: []byte(fmt.Sprintf("AC%dGT", i%10)), refname: "ref", queryname: fmt.Sprintf("q%d", i), idx: i}
	}
	close(cPair)
	old := os.Stdout
	r, w, _ := os.Pipe()
	os.Stdout = w
	writePairwiseAlignment("stdout", 0, cPair, cDone, cErr, in.OmitRef)
	w.Close()
	os.Stdout = old
	b, _ := io.ReadAll(r)
	return string(b)
}

func verifOrdCheck(in verifOrdIn) (bool, string) {
	got := verifOrdRun(in)
	var want strings.Builder
	for i := 0; i < len(in.Arrival); i++ {
		if !in.OmitRef {
			want.WriteString(">ref\nAC-GT\n")
		}
		want.WriteString(fmt.Sprintf(">q%d\nAC%dGT\n", i, i%10))
	}
	if got != want.String() {
		return false, fmt.Sprintf("pairs arriving in idx order %v are written as %q, input order is %q", in.Arrival, got, want.String())
	}
	return true, ""
}

func TestVerifOracle(t *testing.T) {
	report := func(in verifOrdIn, detail string) {
		b, _ := json.Marshal(map[string]interface{}{"input": in, "detail": detail})
		fmt.Println("GFV-FAIL " + string(b))
	}
	if s := os.Getenv("GFV_INPUT"); s != "" {
		var in verifOrdIn
		if err := json.Unmarshal([]byte(s), &in); err != nil {
			t.Fatal(err)
		}
		if ok, d := verifOrdCheck(in); !ok {
			report(in, d)
		}
		return
	}
	n := 0
	var perm func(k int, cur []int, used []bool, size int) bool
	perm = func(k int, cur []int, used []bool, size int) bool {
		if k == size {
			for _, omit := range []bool{false, true} {
				in := verifOrdIn{append([]int{}, cur...), omit}
				n++
				if ok, d := verifOrdCheck(in); !ok {
					report(in, d)
					return false
				}
			}
			return true
		}
		for i := 0; i < size; i++ {
			if !used[i] {
				used[i] = true
				if !perm(k+1, append(cur, i), used, size) {
					return false
				}
				used[i] = false
			}
		}
		return true
	}
	for size := 1; size <= 5; size++ {
		if !perm(0, nil, make([]bool, size), size) {
			return
		}
	}
	fmt.Printf("GFV-DONE %d (every arrival order of 1..5 pairs, with and without the reference record)\n", n)
}
