package main

// SMT-LIB term construction helpers, sort registry and the fixed prelude.

import (
	"fmt"
	"go/types"
	"sort"
	"strings"
)

// ---------- s-expression helpers ----------

// splitSexp splits "(head a b (c d))" into head and top-level args. ok=false for atoms.
func splitSexp(t string) (head string, args []string, ok bool) {
	t = strings.TrimSpace(t)
	if len(t) < 2 || t[0] != '(' || t[len(t)-1] != ')' {
		return "", nil, false
	}
	inner := t[1 : len(t)-1]
	var parts []string
	depth := 0
	start := -1
	inBar := false
	inStr := false
	for i := 0; i < len(inner); i++ {
		ch := inner[i]
		if inBar {
			if ch == '|' {
				inBar = false
			}
			continue
		}
		if inStr {
			if ch == '"' {
				inStr = false
			}
			continue
		}
		switch ch {
		case '|':
			inBar = true
			if start < 0 {
				start = i
			}
		case '"':
			inStr = true
			if start < 0 {
				start = i
			}
		case '(':
			if depth == 0 && start < 0 {
				start = i
			}
			depth++
		case ')':
			depth--
			if depth == 0 {
				parts = append(parts, inner[start:i+1])
				start = -1
			}
		case ' ', '\n', '\t':
			if depth == 0 && start >= 0 {
				parts = append(parts, inner[start:i])
				start = -1
			}
		default:
			if start < 0 {
				start = i
			}
		}
	}
	if start >= 0 {
		parts = append(parts, inner[start:])
	}
	if len(parts) == 0 {
		return "", nil, false
	}
	return parts[0], parts[1:], true
}

func app(f string, args ...string) string {
	if len(args) == 0 {
		return f
	}
	return "(" + f + " " + strings.Join(args, " ") + ")"
}

func and(xs ...string) string {
	var ys []string
	for _, x := range xs {
		if x == "true" || x == "" {
			continue
		}
		if x == "false" {
			return "false"
		}
		ys = append(ys, x)
	}
	if len(ys) == 0 {
		return "true"
	}
	if len(ys) == 1 {
		return ys[0]
	}
	return "(and " + strings.Join(ys, " ") + ")"
}

func or(xs ...string) string {
	var ys []string
	for _, x := range xs {
		if x == "false" || x == "" {
			continue
		}
		if x == "true" {
			return "true"
		}
		ys = append(ys, x)
	}
	if len(ys) == 0 {
		return "false"
	}
	if len(ys) == 1 {
		return ys[0]
	}
	return "(or " + strings.Join(ys, " ") + ")"
}

func not(x string) string {
	if x == "true" {
		return "false"
	}
	if x == "false" {
		return "true"
	}
	if strings.HasPrefix(x, "(not ") {
		_, a, ok := splitSexp(x)
		if ok && len(a) == 1 {
			return a[0]
		}
	}
	return "(not " + x + ")"
}

func implies(a, b string) string {
	if a == "true" {
		return b
	}
	if a == "false" || b == "true" {
		return "true"
	}
	return "(=> " + a + " " + b + ")"
}

func ite(c, a, b string) string {
	if c == "true" {
		return a
	}
	if c == "false" {
		return b
	}
	if a == b {
		return a
	}
	return "(ite " + c + " " + a + " " + b + ")"
}

func eq(a, b string) string {
	if a == b {
		return "true"
	}
	return "(= " + a + " " + b + ")"
}

func intLit(n int64) string {
	if n < 0 {
		return fmt.Sprintf("(- %d)", -n)
	}
	return fmt.Sprintf("%d", n)
}

func bvLit(n int64) string {
	return fmt.Sprintf("#x%02x", uint8(n))
}

func add(a, b string) string {
	if b == "0" {
		return a
	}
	if a == "0" {
		return b
	}
	// a + (X - a) = X : keeps array indices free of arithmetic when quantifying over absolute positions
	if strings.HasPrefix(b, "(- ") && strings.HasSuffix(b, " "+a+")") {
		return strings.TrimSuffix(strings.TrimPrefix(b, "(- "), " "+a+")")
	}
	return "(+ " + a + " " + b + ")"
}

func sub(a, b string) string {
	if b == "0" {
		return a
	}
	return "(- " + a + " " + b + ")"
}

// accessor applies a datatype accessor with peephole simplification on constructor terms.
func (c *Ctx) accessor(acc string, t string) string {
	if ci, ok := c.accIndex[acc]; ok {
		// look through definitional names (x!n = (ctor …)) so that equal values get equal terms
		for i := 0; i < 6; i++ {
			d, isDef := c.defs[t]
			if !isDef {
				break
			}
			if (strings.HasPrefix(d, "("+ci.ctor+" ") && strings.HasPrefix(ci.ctor, "mk_St_")) || !strings.HasPrefix(d, "(") {
				t = d
				continue
			}
			break
		}
		if h, args, ok2 := splitSexp(t); ok2 && h == ci.ctor && len(args) == ci.n {
			return args[ci.idx]
		}
		// push through ite of constructors to keep terms small
	}
	return "(" + acc + " " + t + ")"
}

type accInfo struct {
	ctor string
	idx  int
	n    int
}

// ---------- per-function SMT context ----------

type Ctx struct {
	g            *Global
	decls        []string
	declared     map[string]bool
	assumes      []string
	fresh        int
	accIndex     map[string]accInfo
	structs      map[string]*structInfo // sort name -> info
	heapSorts    map[string]bool
	litStr       map[string]string // go string literal -> const name
	litOrder     []string
	cntDefs      map[string]string
	trusted      map[string]bool // assumed library contracts used
	unspecified  map[string]bool
	notes        map[string]bool
	defs         map[string]string
	inlineCache  map[string]Val
	inContract   int
	sorts        map[string]string
	predImplicit map[string][]string
}

type structInfo struct {
	sort   string
	ctor   string
	fields []string
	fsorts []string
	ftypes []types.Type
}

func newCtx(g *Global) *Ctx {
	c := &Ctx{g: g, declared: map[string]bool{}, accIndex: map[string]accInfo{}, structs: map[string]*structInfo{},
		heapSorts: map[string]bool{}, litStr: map[string]string{}, cntDefs: map[string]string{}, trusted: map[string]bool{}, unspecified: map[string]bool{}, notes: map[string]bool{}, defs: map[string]string{}, inlineCache: map[string]Val{}, sorts: map[string]string{}, predImplicit: map[string][]string{}}
	c.accIndex["s.ref"] = accInfo{"mkSlice", 0, 4}
	c.accIndex["s.off"] = accInfo{"mkSlice", 1, 4}
	c.accIndex["s.len"] = accInfo{"mkSlice", 2, 4}
	c.accIndex["s.cap"] = accInfo{"mkSlice", 3, 4}
	c.accIndex["f.nan"] = accInfo{"mkF64", 0, 2}
	c.accIndex["f.val"] = accInfo{"mkF64", 1, 2}
	return c
}

func (c *Ctx) declare(name, decl string) {
	if c.declared[name] {
		return
	}
	c.declared[name] = true
	c.decls = append(c.decls, decl)
}

func (c *Ctx) freshName(hint string) string {
	c.fresh++
	hint = sanitize(hint)
	return fmt.Sprintf("%s!%d", hint, c.fresh)
}

func sanitize(s string) string {
	var b strings.Builder
	for _, r := range s {
		if (r >= 'a' && r <= 'z') || (r >= 'A' && r <= 'Z') || (r >= '0' && r <= '9') || r == '_' || r == '.' {
			b.WriteRune(r)
		} else {
			b.WriteRune('_')
		}
	}
	if b.Len() == 0 {
		return "v"
	}
	return b.String()
}

// freshConst declares a fresh constant of the given sort.
func (c *Ctx) freshConst(hint, sort string) string {
	n := c.freshName(hint)
	c.declare(n, fmt.Sprintf("(declare-fun %s () %s)", n, sort))
	c.sorts[n] = sort
	return n
}

func (c *Ctx) assume(pc, fact string) {
	if fact == "true" {
		return
	}
	c.assumes = append(c.assumes, implies(pc, fact))
}

// define introduces a name for a term (keeps terms small).
func (c *Ctx) define(hint, sort, term string) string {
	if c.inContract > 0 {
		return term // terms inside contract expressions may mention bound variables: never lift them out
	}
	// small terms are inlined; "small" is measured in operators, not characters, so that the shape of the verification
	// conditions does not depend on how long the program's identifiers are (rename stress test)
	if strings.Count(term, "(") <= 2 && strings.Count(term, " ") <= 4 && !strings.Contains(term, "(ite ") {
		return term
	}
	n := c.freshConst(hint, sort)
	c.assumes = append(c.assumes, "(= "+n+" "+term+")")
	c.defs[n] = term
	return n
}

// ---------- sorts ----------

const sortSlice = "Slice"
const sortF64 = "F64"
const sortStr = "Str"
const sortErr = "Err"
const sortBV8 = "(_ BitVec 8)"

func isByte(t types.Type) bool {
	b, ok := t.Underlying().(*types.Basic)
	return ok && (b.Kind() == types.Uint8)
}
func isInt(t types.Type) bool {
	if _, ok := t.(*types.TypeParam); ok {
		return true // generic helpers (gmin/gmax) are only instantiated at int in this code base: verified at that instance
	}
	b, ok := t.Underlying().(*types.Basic)
	return ok && b.Info()&types.IsInteger != 0 && b.Kind() != types.Uint8
}
func isFloat(t types.Type) bool {
	b, ok := t.Underlying().(*types.Basic)
	return ok && b.Info()&types.IsFloat != 0
}
func isString(t types.Type) bool {
	b, ok := t.Underlying().(*types.Basic)
	return ok && b.Info()&types.IsString != 0
}
func isBool(t types.Type) bool {
	b, ok := t.Underlying().(*types.Basic)
	return ok && b.Info()&types.IsBoolean != 0
}
func isError(t types.Type) bool {
	return t.String() == "error"
}

func (c *Ctx) sortOf(t types.Type) string {
	if t == nil {
		panic(unsupported("sort of nil type"))
	}
	if _, ok := t.(*types.TypeParam); ok {
		return "Int"
	}
	if nt, ok := t.(*types.Named); ok && nt.Obj().Pkg() != nil && (nt.Obj().Pkg().Path() == "sync" || nt.Obj().Pkg().Path() == "sync/atomic") {
		return "Int" // synchronisation objects are opaque (their methods are no-ops in the sequential model)
	}
	switch u := t.Underlying().(type) {
	case *types.Basic:
		switch {
		case u.Info()&types.IsBoolean != 0:
			return "Bool"
		case u.Kind() == types.Uint8:
			return sortBV8
		case u.Info()&types.IsInteger != 0:
			return "Int"
		case u.Info()&types.IsFloat != 0:
			return sortF64
		case u.Info()&types.IsString != 0:
			return sortStr
		case u.Kind() == types.UntypedNil:
			return "Int"
		}
	case *types.Slice:
		return sortSlice
	case *types.Array:
		es := c.sortOf(u.Elem())
		if u.Len() == 256 {
			return "(Array " + sortBV8 + " " + es + ")"
		}
		return "(Array Int " + es + ")"
	case *types.Struct:
		return c.structSort(t, u)
	case *types.Pointer:
		return c.sortOf(u.Elem())
	case *types.Map:
		if _, isFunc := u.Elem().Underlying().(*types.Signature); isFunc {
			return "Int" // closure table id
		}
		return c.mapSort(u)
	case *types.Interface:
		if isError(t) {
			return sortErr
		}
		return "Int" // opaque handle (io.Writer, io.Reader …)
	case *types.Chan:
		return "Int"
	case *types.Signature:
		return "Int"
	}
	panic(unsupported("type " + t.String()))
}

func (c *Ctx) structSort(t types.Type, u *types.Struct) string {
	name := ""
	if n, ok := t.(*types.Named); ok {
		pk := ""
		if n.Obj().Pkg() != nil {
			pk = n.Obj().Pkg().Name()
		}
		name = "St_" + pk + "_" + n.Obj().Name()
	} else if n, ok := t.(*types.Alias); ok {
		return c.structSort(types.Unalias(n), u)
	} else {
		name = "St_anon_" + sanitize(u.String())
	}
	if _, ok := c.structs[name]; ok {
		return name
	}
	si := &structInfo{sort: name, ctor: "mk_" + name}
	c.structs[name] = si // guard recursion
	for i := 0; i < u.NumFields(); i++ {
		f := u.Field(i)
		var fs string
		func() {
			defer func() {
				if r := recover(); r != nil {
					// unsupported field type: keep as opaque Int
					fs = "Int"
				}
			}()
			if _, isPtr := f.Type().Underlying().(*types.Pointer); isPtr {
				fs = "Int" // pointer-typed fields are opaque handles
				return
			}
			fs = c.sortOf(f.Type())
		}()
		si.fields = append(si.fields, f.Name())
		si.fsorts = append(si.fsorts, fs)
		si.ftypes = append(si.ftypes, f.Type())
	}
	var fl []string
	for i, f := range si.fields {
		acc := name + "." + f
		fl = append(fl, fmt.Sprintf("(|%s| %s)", acc, si.fsorts[i]))
		c.accIndex["|"+acc+"|"] = accInfo{si.ctor, i, len(si.fields)}
	}
	if len(fl) == 0 {
		c.declare(name, fmt.Sprintf("(declare-datatypes ((%s 0)) (((%s))))", name, si.ctor))
	} else {
		c.declare(name, fmt.Sprintf("(declare-datatypes ((%s 0)) (((%s %s))))", name, si.ctor, strings.Join(fl, " ")))
	}
	return name
}

func (c *Ctx) fieldAcc(sort, field string) string { return "|" + sort + "." + field + "|" }

func (c *Ctx) structGet(sortName, field, t string) string {
	return c.accessor(c.fieldAcc(sortName, field), t)
}

func (c *Ctx) structSet(sortName, field, t, v string) string {
	si := c.structs[sortName]
	var args []string
	for _, f := range si.fields {
		if f == field {
			args = append(args, v)
		} else {
			args = append(args, c.structGet(sortName, f, t))
		}
	}
	return app(si.ctor, args...)
}

func sortKey(s string) string {
	s = strings.NewReplacer("(", "", ")", "", " ", "_").Replace(s)
	return s
}

func (c *Ctx) mapSort(u *types.Map) string {
	ks := c.sortOf(u.Key())
	vs := c.sortOf(u.Elem())
	name := "Map_" + sortKey(ks) + "_" + sortKey(vs)
	if c.declared[name] {
		return name
	}
	c.declare(name, fmt.Sprintf("(declare-datatypes ((%s 0)) (((mk_%s (|%s.dom| (Array %s Bool)) (|%s.val| (Array %s %s)) (|%s.size| Int)))))", name, name, name, ks, name, ks, vs, name))
	c.accIndex["|"+name+".dom|"] = accInfo{"mk_" + name, 0, 3}
	c.accIndex["|"+name+".val|"] = accInfo{"mk_" + name, 1, 3}
	c.accIndex["|"+name+".size|"] = accInfo{"mk_" + name, 2, 3}
	return name
}

func (c *Ctx) heapName(elemSort string) string {
	c.heapSorts[elemSort] = true
	return "(Array Int (Array Int " + elemSort + "))"
}

// zero value term of a Go type
func (c *Ctx) zero(t types.Type) string {
	if _, ok := t.(*types.TypeParam); ok {
		return "0"
	}
	if nt, ok := t.(*types.Named); ok && nt.Obj().Pkg() != nil && (nt.Obj().Pkg().Path() == "sync" || nt.Obj().Pkg().Path() == "sync/atomic") {
		return "0"
	}
	switch u := t.Underlying().(type) {
	case *types.Basic:
		switch {
		case u.Info()&types.IsBoolean != 0:
			return "false"
		case u.Kind() == types.Uint8:
			return "#x00"
		case u.Info()&types.IsInteger != 0:
			return "0"
		case u.Info()&types.IsFloat != 0:
			return "(mkF64 false 0.0)"
		case u.Info()&types.IsString != 0:
			return c.strLit("")
		}
	case *types.Slice:
		return "(mkSlice 0 0 0 0)" // ref 0 is the nil array
	case *types.Array:
		es := c.sortOf(u.Elem())
		if u.Len() == 256 {
			return c.constArray(sortBV8, es, c.zero(u.Elem()))
		}
		return c.constArray("Int", es, c.zero(u.Elem()))
	case *types.Struct:
		s := c.sortOf(t)
		si := c.structs[s]
		var args []string
		for i := range si.fields {
			if si.fsorts[i] == "Int" && !isInt(si.ftypes[i]) {
				args = append(args, "0")
			} else {
				args = append(args, c.zero(si.ftypes[i]))
			}
		}
		return app(si.ctor, args...)
	case *types.Pointer:
		return c.zero(u.Elem())
	case *types.Map:
		if _, isFunc := u.Elem().Underlying().(*types.Signature); isFunc {
			return "0"
		}
		ms := c.mapSort(u)
		ks := c.sortOf(u.Key())
		vs := c.sortOf(u.Elem())
		return fmt.Sprintf("(mk_%s ((as const (Array %s Bool)) false) %s 0)", ms, ks, c.constArray(ks, vs, c.zero(u.Elem())))
	case *types.Interface:
		if isError(t) {
			return "err.nil"
		}
		return "0"
	case *types.Chan, *types.Signature:
		return "0"
	}
	panic(unsupported("zero of " + t.String()))
}

// string literal constants: one SMT constant per distinct literal, with length and character axioms.
func (c *Ctx) strLit(s string) string {
	if n, ok := c.litStr[s]; ok {
		return n
	}
	n := fmt.Sprintf("lit!%d", len(c.litStr))
	c.litStr[s] = n
	c.litOrder = append(c.litOrder, s)
	c.declare(n, fmt.Sprintf("(declare-fun %s () Str)", n))
	return n
}

// literal axioms are emitted at query time (they depend on the full literal set)
func (c *Ctx) literalAxioms() []string {
	var out []string
	var names []string
	for _, s := range c.litOrder {
		n := c.litStr[s]
		names = append(names, n)
		out = append(out, fmt.Sprintf("(= (gs.len %s) %d)", n, len(s)))
		if len(s) == 1 {
			out = append(out, fmt.Sprintf("(= %s (gs.frombyte %s))", n, bvLit(int64(s[0]))))
		}
		if len(s) == 2 {
			out = append(out, fmt.Sprintf("(= %s (gs.cat (gs.frombyte %s) (gs.frombyte %s)))", n, bvLit(int64(s[0])), bvLit(int64(s[1]))))
		}
		if len(s) == 3 {
			out = append(out, fmt.Sprintf("(= %s (gs.cat (gs.cat (gs.frombyte %s) (gs.frombyte %s)) (gs.frombyte %s)))", n, bvLit(int64(s[0])), bvLit(int64(s[1])), bvLit(int64(s[2]))))
		}
		if len(s) == 0 {
			out = append(out, fmt.Sprintf("(forall ((x Str)) (! (= (gs.cat %s x) x) :pattern ((gs.cat %s x))))", n, n))
			out = append(out, fmt.Sprintf("(forall ((x Str)) (! (= (gs.cat x %s) x) :pattern ((gs.cat x %s))))", n, n))
		}
		if len(s) <= 12 {
			for i := 0; i < len(s); i++ {
				out = append(out, fmt.Sprintf("(= (gs.at %s %d) %s)", n, i, bvLit(int64(s[i]))))
			}
		}
	}
	if len(names) > 1 {
		out = append(out, "(distinct "+strings.Join(names, " ")+")")
	}
	return out
}

const prelude = `
(declare-datatypes ((Slice 0)) (((mkSlice (s.ref Int) (s.off Int) (s.len Int) (s.cap Int)))))
(declare-datatypes ((F64 0)) (((mkF64 (f.nan Bool) (f.val Real)))))
(declare-sort Str 0)
(declare-sort Err 0)
(declare-fun err.nil () Err)
(declare-fun gs.len (Str) Int)
(declare-fun gs.at (Str Int) (_ BitVec 8))
(declare-fun gs.cat (Str Str) Str)
(declare-fun gs.sub (Str Int Int) Str)
(declare-fun gs.frombytes ((Array Int (_ BitVec 8)) Int Int) Str)
(declare-fun bytes.ofstr (Str) (Array Int (_ BitVec 8)))
(declare-fun gs.itoa (Int) Str)
(declare-fun gs.lt (Str Str) Bool)
(declare-fun gs.atoi (Str) Int)
(declare-fun gs.fmtfloat (F64) Str)
(declare-fun gs.frombyte ((_ BitVec 8)) Str)
(declare-fun gs.fromrune (Int) Str)
(declare-fun rune.ofbyte ((_ BitVec 8)) Int)
(declare-fun f.log (Real) Real)
(declare-fun cig.type (Int) (_ BitVec 8))
(declare-fun cig.typestr ((_ BitVec 8)) Str)
(declare-fun cig.len (Int) Int)
(declare-fun gs.sorted ((Array Int Str) Int Int) Bool)
(declare-fun int.sorted ((Array Int Int) Int Int) Bool)
(define-fun f.trunc ((a F64)) Int (ite (>= (f.val a) 0.0) (to_int (f.val a)) (- (to_int (- (f.val a))))))
(define-fun f.floor ((a F64)) F64 (mkF64 (f.nan a) (to_real (to_int (f.val a)))))
(define-fun godiv ((a Int) (b Int)) Int (ite (>= a 0) (ite (> b 0) (div a b) (- (div a (- b)))) (ite (> b 0) (- (div (- a) b)) (div (- a) (- b)))))
(define-fun gomod ((a Int) (b Int)) Int (- a (* b (godiv a b))))
(define-fun f.of ((x Real)) F64 (mkF64 false x))
(define-fun f.add ((a F64) (b F64)) F64 (mkF64 (or (f.nan a) (f.nan b)) (+ (f.val a) (f.val b))))
(define-fun f.sub ((a F64) (b F64)) F64 (mkF64 (or (f.nan a) (f.nan b)) (- (f.val a) (f.val b))))
(define-fun f.mul ((a F64) (b F64)) F64 (mkF64 (or (f.nan a) (f.nan b)) (* (f.val a) (f.val b))))
(declare-fun f.divz (Real) Real)
(define-fun f.div ((a F64) (b F64)) F64 (mkF64 (or (f.nan a) (f.nan b) (and (= (f.val b) 0.0) (= (f.val a) 0.0))) (ite (= (f.val b) 0.0) (f.divz (f.val a)) (/ (f.val a) (f.val b)))))
(define-fun f.neg ((a F64)) F64 (mkF64 (f.nan a) (- (f.val a))))
(define-fun f.lt ((a F64) (b F64)) Bool (and (not (f.nan a)) (not (f.nan b)) (< (f.val a) (f.val b))))
(define-fun f.le ((a F64) (b F64)) Bool (and (not (f.nan a)) (not (f.nan b)) (<= (f.val a) (f.val b))))
(define-fun f.eq ((a F64) (b F64)) Bool (and (not (f.nan a)) (not (f.nan b)) (= (f.val a) (f.val b))))
(assert (forall ((a Str) (b Str)) (! (= (gs.len (gs.cat a b)) (+ (gs.len a) (gs.len b))) :pattern ((gs.cat a b)))))
(assert (forall ((a Str)) (! (>= (gs.len a) 0) :pattern ((gs.len a)))))
(assert (forall ((o Int)) (! (>= (cig.len o) 0) :pattern ((cig.len o)))))
(assert (forall ((A (Array Int Str)) (o Int) (n Int)) (! (= (gs.sorted A o n) (forall ((i Int) (j Int)) (=> (and (<= o i) (< i j) (< j (+ o n))) (not (gs.lt (select A j) (select A i)))))) :pattern ((gs.sorted A o n)))))
(assert (forall ((A (Array Int Int)) (o Int) (n Int)) (! (= (int.sorted A o n) (forall ((i Int) (j Int)) (=> (and (<= o i) (< i j) (< j (+ o n))) (<= (select A i) (select A j))))) :pattern ((int.sorted A o n)))))
(assert (forall ((a Str) (b Str) (j Int)) (! (= (gs.at (gs.cat a b) j) (ite (< j (gs.len a)) (gs.at a j) (gs.at b (- j (gs.len a))))) :pattern ((gs.at (gs.cat a b) j)))))
(assert (forall ((A (Array Int (_ BitVec 8))) (o Int) (n Int)) (! (=> (>= n 0) (= (gs.len (gs.frombytes A o n)) n)) :pattern ((gs.frombytes A o n)))))
(assert (forall ((A (Array Int (_ BitVec 8))) (o Int) (n Int) (j Int)) (! (=> (and (<= 0 j) (< j n)) (= (gs.at (gs.frombytes A o n) j) (select A (+ o j)))) :pattern ((gs.at (gs.frombytes A o n) j)))))
(assert (forall ((s Str) (a Int) (b Int)) (! (=> (and (<= 0 a) (<= a b) (<= b (gs.len s))) (= (gs.len (gs.sub s a b)) (- b a))) :pattern ((gs.sub s a b)))))
(assert (forall ((s Str) (a Int) (b Int) (j Int)) (! (=> (and (<= 0 a) (<= 0 j) (< j (- b a))) (= (gs.at (gs.sub s a b) j) (gs.at s (+ a j)))) :pattern ((gs.at (gs.sub s a b) j)))))
(assert (forall ((s Str) (j Int)) (! (=> (and (<= 0 j) (< j (gs.len s))) (= (select (bytes.ofstr s) j) (gs.at s j))) :pattern ((select (bytes.ofstr s) j)))))
(assert (forall ((s Str)) (! (= (gs.frombytes (bytes.ofstr s) 0 (gs.len s)) s) :pattern ((bytes.ofstr s)))))
(assert (forall ((n Int)) (! (= (gs.atoi (gs.itoa n)) n) :pattern ((gs.itoa n)))))
(assert (forall ((a Str) (b Str)) (! (and (not (and (gs.lt a b) (gs.lt b a))) (or (gs.lt a b) (gs.lt b a) (= a b))) :pattern ((gs.lt a b)))))
(assert (forall ((a Str) (b Str) (c Str)) (! (=> (and (gs.lt a b) (gs.lt b c)) (gs.lt a c)) :pattern ((gs.lt a b) (gs.lt b c)))))
(assert (forall ((n Int)) (! (>= (gs.len (gs.itoa n)) 1) :pattern ((gs.itoa n)))))
(assert (forall ((b (_ BitVec 8))) (! (and (= (gs.len (gs.frombyte b)) 1) (= (gs.at (gs.frombyte b) 0) b)) :pattern ((gs.frombyte b)))))
`

// f.divz models x/0 for x != 0 (±Inf): an unconstrained large value of the sign of x is not needed by any contract.

func sortedKeys(m map[string]bool) []string {
	var ks []string
	for k := range m {
		ks = append(ks, k)
	}
	sort.Strings(ks)
	return ks
}

type unsupportedErr struct{ msg string }

func unsupported(msg string) unsupportedErr { return unsupportedErr{msg} }
func (u unsupportedErr) Error() string      { return "outside subset: " + u.msg }

// constArray: a constant array. cvc5 only accepts values as the default of `as const`, so non-literal defaults
// (structs containing string literals …) get a named array with a defining axiom.
func (c *Ctx) constArray(keySort, elemSort, zero string) string {
	simple := !strings.Contains(zero, "lit!")
	if simple {
		return fmt.Sprintf("((as const (Array %s %s)) %s)", keySort, elemSort, zero)
	}
	name := "zeroarr_" + sortKey(keySort) + "_" + sortKey(elemSort)
	if !c.declared[name] {
		c.declare(name, fmt.Sprintf("(declare-fun %s () (Array %s %s))", name, keySort, elemSort))
		c.decls = append(c.decls, fmt.Sprintf("(assert (forall ((j %s)) (! (= (select %s j) %s) :pattern ((select %s j)))))", keySort, name, zero, name))
	}
	return name
}
