package main

// Replay of violations on the real code. An *oracle* is a Go test file under /verif/oracles/<name>.go, written from
// the property statement (not from gofasta's code), that is injected into the function's own package with
// `go test -overlay` (nothing is written into the repository), calls the REAL function and checks the property-level
// postcondition. It runs either one given input (GFV_INPUT, JSON) or a deterministic enumeration of small inputs
// followed by VERIF_SEED-seeded random ones (GFV_ENUM=1), printing `GFV-FAIL {"input":…,"detail":…}` for the
// first input on which the real code violates the clause.

import (
	"bytes"
	"context"
	"encoding/json"
	"fmt"
	"os"
	"os/exec"
	"path/filepath"
	"regexp"
	"strings"
	"time"
)

var rePkgLine = regexp.MustCompile(`(?m)^package\s+(\S+)`)
var reOracleDir = regexp.MustCompile(`(?m)^//\s*gfv:dir\s+(\S+)`)

type oracleResult struct {
	Found  bool
	Input  string
	Detail string
	Log    string
}

func runOracle(repo, vdir, oracle string, input string, budget time.Duration, seed int64) oracleResult {
	src := filepath.Join(vdir, "oracles", oracle+".go")
	b, err := os.ReadFile(src)
	if err != nil {
		return oracleResult{Detail: "oracle not found: " + src}
	}
	m := reOracleDir.FindSubmatch(b)
	if m == nil {
		return oracleResult{Detail: "oracle has no `// gfv:dir <pkgdir>` line"}
	}
	pkgDir := string(m[1])
	scratch := scratchDir()
	ov := map[string]map[string]string{"Replace": {filepath.Join(repo, pkgDir, "zz_verif_oracle_test.go"): src}}
	ovb, _ := json.Marshal(ov)
	ovPath := filepath.Join(scratch, "overlay_"+oracle+".json")
	os.WriteFile(ovPath, ovb, 0o644)
	defer os.Remove(ovPath)
	ctx, cancel := context.WithTimeout(context.Background(), budget+90*time.Second)
	defer cancel()
	cmd := exec.CommandContext(ctx, "go", "test", "-overlay", ovPath, "-vet=off", "-v", "-count=1", "-timeout", fmt.Sprintf("%ds", int(budget.Seconds())+60), "-run", "^TestVerifOracle$", "./"+pkgDir)
	cmd.Dir = repo
	cmd.Env = append(os.Environ(), "GOFLAGS=-mod=mod", "GOPROXY=off", "GOSUMDB=off", "GOTOOLCHAIN=local",
		fmt.Sprintf("GFV_BUDGET_MS=%d", budget.Milliseconds()), fmt.Sprintf("VERIF_SEED=%d", seed))
	if input != "" {
		cmd.Env = append(cmd.Env, "GFV_INPUT="+input)
	} else {
		cmd.Env = append(cmd.Env, "GFV_ENUM=1")
	}
	var out bytes.Buffer
	cmd.Stdout = &out
	cmd.Stderr = &out
	cmd.Run()
	txt := out.String()
	for _, ln := range strings.Split(txt, "\n") {
		if i := strings.Index(ln, "GFV-FAIL "); i >= 0 {
			var r struct {
				Input  json.RawMessage `json:"input"`
				Detail string          `json:"detail"`
			}
			if err := json.Unmarshal([]byte(ln[i+9:]), &r); err == nil {
				return oracleResult{Found: true, Input: string(r.Input), Detail: r.Detail, Log: txt}
			}
		}
	}
	detail := "no failing input found"
	for _, ln := range strings.Split(txt, "\n") {
		if i := strings.Index(ln, "GFV-DONE "); i >= 0 {
			detail = "no failing input among " + strings.TrimSpace(ln[i+9:])
		}
	}
	if strings.Contains(txt, "[build failed]") || strings.Contains(txt, "[setup failed]") {
		detail = "oracle did not build: " + firstLines(txt, 12)
	}
	return oracleResult{Detail: detail, Log: txt}
}

func (cr *checkRun) findFailingInput(oracle string, o *Obligation) (input string, detail string, found bool) {
	budget := 8 * time.Second
	if cr.tier == "thorough" {
		budget = 60 * time.Second
	}
	if cr.oracleCache == nil {
		cr.oracleCache = map[string]oracleResult{}
	}
	r, ok := cr.oracleCache[oracle]
	if !ok {
		r = runOracle(cr.repo, cr.vdir, oracle, "", budget, cr.seed)
		cr.oracleCache[oracle] = r
	}
	return r.Input, r.Detail, r.Found
}

func cmdReplay(args []string) {
	if len(args) < 1 {
		fmt.Fprintln(os.Stderr, "usage: gfverify replay <replay.json>")
		os.Exit(2)
	}
	var rep struct {
		Property     string          `json:"property"`
		Obligation   string          `json:"obligation"`
		Oracle       string          `json:"oracle"`
		FailingInput json.RawMessage `json:"failing_input"`
		Reason       string          `json:"reason"`
	}
	if err := readJSON(args[0], &rep); err != nil {
		fmt.Fprintln(os.Stderr, err)
		os.Exit(2)
	}
	fmt.Printf("property %s, obligation %s\n%s\n", rep.Property, rep.Obligation, rep.Reason)
	if rep.Oracle == "" || len(rep.FailingInput) == 0 {
		fmt.Println("no failing input recorded (no-failing-input-found): nothing to execute; see solver_output in the file")
		os.Exit(0)
	}
	r := runOracle(envOr("GFV_REPO", "/repo"), envOr("GFV_VERIF", "/verif"), rep.Oracle, string(rep.FailingInput), 10*time.Second, 0)
	if r.Found {
		fmt.Printf("REPRODUCED on the real code: input=%s\n  %s\n", r.Input, r.Detail)
		os.Exit(1)
	}
	fmt.Println("not reproduced:", r.Detail)
	os.Exit(0)
}
