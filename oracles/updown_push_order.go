// gfv:dir pkg/updown
//
// BOUNDED stand-in for C12/C08 (--dist-push): pushCatchment2Catchment ranges over a Go map, which is outside the
// contract language, so that the flattened-and-sorted bins do not depend on the map's iteration order is checked here on
// the REAL findUpDownCatchmentPushDistance: for generated target sets with many ties (same distance, same ambiguity
// count, several distinct distances per direction) the function is run repeatedly (Go randomises map iteration on every
// range) and each run must give, per direction, exactly the targets at the k smallest occurring distances ordered by
// distance, then fewer ambiguities, then arrival (= file) order; `same` holds every identical target in arrival order.
package updown

import (
	"encoding/json"
	"fmt"
	"math/rand"
	"os"
	"sort"
	"strings"
	"testing"

	"github.com/virus-evolution/gofasta/pkg/encoding"
)

type verifPOIn struct {
	Ref     string   `json:"ref"`
	Query   string   `json:"query"`
	Targets []string `json:"targets"`
	K       int      `json:"k"`
	Runs    int      `json:"runs"`
}

func verifPOLines(ref string, seqs []string, prefix string) ([]updownLine, error) {
	EA := encoding.MakeEncodingArray()
	r := make([]byte, len(ref))
	for i := range ref {
		r[i] = EA[ref[i]]
	}
	var sb strings.Builder
	for i, s := range seqs {
		fmt.Fprintf(&sb, ">%s%03d\n%s\n", prefix, i, s)
	}
	return fastaToUDLList(strings.NewReader(sb.String()), r)
}

func verifCheckPO(in verifPOIn) (ok bool, detail string) {
	qs, err := verifPOLines(in.Ref, []string{in.Query}, "q")
	if err != nil {
		return true, ""
	}
	ts, err := verifPOLines(in.Ref, in.Targets, "t")
	if err != nil {
		return true, ""
	}
	sort.SliceStable(ts, func(i, j int) bool { return ts[i].idx < ts[j].idx })
	q := qs[0]
	// expectation from the statement, with the (separately contracted) whichWay as the pairwise classifier
	type cand struct {
		name      string
		dist, amb int
		pos       int
	}
	var bins [4][]cand
	for i, t := range ts {
		dir, d := whichWay(q, t, 1.0)
		if d < 0 {
			continue
		}
		bins[dir] = append(bins[dir], cand{t.id, d, t.ambCount, i})
	}
	want := [4][]string{}
	for dir := 0; dir < 4; dir++ {
		cs := bins[dir]
		if dir > 0 {
			ds := map[int]bool{}
			for _, c := range cs {
				ds[c.dist] = true
			}
			var keys []int
			for d := range ds {
				keys = append(keys, d)
			}
			sort.Ints(keys)
			if len(keys) > in.K {
				keys = keys[:in.K]
			}
			keep := map[int]bool{}
			for _, d := range keys {
				keep[d] = true
			}
			var f []cand
			for _, c := range cs {
				if keep[c.dist] {
					f = append(f, c)
				}
			}
			cs = f
			sort.SliceStable(cs, func(i, j int) bool {
				if cs[i].dist != cs[j].dist {
					return cs[i].dist < cs[j].dist
				}
				if cs[i].amb != cs[j].amb {
					return cs[i].amb < cs[j].amb
				}
				return cs[i].pos < cs[j].pos
			})
		}
		for _, c := range cs {
			want[dir] = append(want[dir], c.name)
		}
	}
	names := func(s updownCatchmentSubStruct) []string {
		var r []string
		for _, x := range s.catchment {
			r = append(r, x.tname)
		}
		return r
	}
	for run := 0; run < in.Runs; run++ {
		cIn := make(chan updownLine, len(ts))
		cOut := make(chan updownCatchmentStruct, 1)
		for _, t := range ts {
			cIn <- t
		}
		close(cIn)
		findUpDownCatchmentPushDistance(q, nil, [4]int{}, in.K, 1.0, cIn, cOut)
		res := <-cOut
		got := [4][]string{names(res.same), names(res.up), names(res.down), names(res.side)}
		for dir, label := range []string{"same", "up", "down", "side"} {
			if fmt.Sprint(got[dir]) != fmt.Sprint(want[dir]) {
				return false, fmt.Sprintf("findUpDownCatchmentPushDistance (--dist-push %d), run %d: bin %s is %v, the statement (k nearest distances; distance, then fewer ambiguities, then file order) gives %v", in.K, run+1, label, got[dir], want[dir])
			}
		}
	}
	return true, ""
}

func TestVerifOracle(t *testing.T) {
	report := func(in verifPOIn, detail string) {
		b, _ := json.Marshal(map[string]interface{}{"input": in, "detail": detail})
		fmt.Println("GFV-FAIL " + string(b))
	}
	if s := os.Getenv("GFV_INPUT"); s != "" {
		var in verifPOIn
		if err := json.Unmarshal([]byte(s), &in); err != nil {
			t.Fatal(err)
		}
		if ok, d := verifCheckPO(in); !ok {
			report(in, d)
		}
		return
	}
	rng := rand.New(rand.NewSource(20260928))
	ref := "ACGTACGTAC"
	alt := "CATGCATGCA" // a different base at every column
	n := 0
	for rep := 0; rep < 60; rep++ {
		mk := func(pSNP, pN float64) string {
			b := []byte(ref)
			for i := range b {
				switch x := rng.Float64(); {
				case x < pSNP:
					b[i] = alt[i]
				case x < pSNP+pN:
					b[i] = 'N'
				}
			}
			return string(b)
		}
		q := mk(0.35, 0)
		nt := 30 + rng.Intn(40)
		var ts []string
		for i := 0; i < nt; i++ {
			if len(ts) > 0 && rng.Float64() < 0.45 {
				ts = append(ts, ts[rng.Intn(len(ts))]) // exact duplicates: ties on distance and ambiguity count
			} else {
				ts = append(ts, mk(0.3, 0.08))
			}
		}
		for k := 1; k <= 3; k++ {
			in := verifPOIn{ref, q, ts, k, 12}
			n++
			if ok, d := verifCheckPO(in); !ok {
				report(in, d)
				return
			}
		}
	}
	fmt.Printf("GFV-DONE %d (60 generated target sets of 30..69 ten-column sequences with duplicates and N tracts x --dist-push 1..3, each run 12 times against fresh map iteration orders)\n", n)
}
