// gfv:dir pkg/fastaio
//
// Oracle for C16, written from the property statement: every FASTA reader yields the same records
// (ID = first whitespace-delimited header token, description = whole header, sequence, input index) regardless of
// line width, case and LF/CRLF; any byte stream is either read or rejected with an error (unequal record lengths,
// symbol outside the IUPAC alphabet, no leading header, no records) - never a panic or a hang; blank lines never crash
// a reader (they are ignored). The scoring reader's score and A/C/G/T counts are those of the sequence.
package fastaio

import (
	"encoding/json"
	"fmt"
	"math/rand"
	"os"
	"strconv"
	"strings"
	"testing"
	"time"
)

type verifRec struct {
	ID, Desc, Seq string
	Idx           int
}

const verifAlphabet = "ACGTRYSWKMBDHVN-?"

// reference parser: returns records or an error text; encoded=false skips the symbol check (plain-text reader)
func verifSpecParse(text string, encoded bool) ([]verifRec, string) {
	var recs []verifRec
	have := false
	var cur verifRec
	width := -1
	flush := func() string {
		if width == -1 {
			width = len(cur.Seq)
		} else if len(cur.Seq) != width {
			return "unequal"
		}
		cur.Idx = len(recs)
		recs = append(recs, cur)
		return ""
	}
	for _, ln := range strings.Split(text, "\n") {
		ln = strings.TrimSuffix(ln, "\r")
		if ln == "" {
			continue
		}
		if ln[0] == '>' {
			if have {
				if e := flush(); e != "" {
					return nil, e
				}
			}
			f := strings.Fields(ln[1:])
			if len(f) == 0 {
				return nil, "noid"
			}
			cur = verifRec{ID: f[0], Desc: ln[1:]}
			have = true
			continue
		}
		if !have {
			return nil, "noheader"
		}
		up := strings.ToUpper(ln)
		if encoded {
			for i := 0; i < len(up); i++ {
				if !strings.ContainsRune(verifAlphabet, rune(up[i])) {
					return nil, "symbol"
				}
			}
		}
		cur.Seq += up
	}
	if !have {
		return nil, "empty"
	}
	if e := flush(); e != "" {
		return nil, e
	}
	if width == 0 {
		return nil, "dontcare" // an alignment of width 0 has no sequence data: accepting or rejecting it are both fine
	}
	return recs, ""
}

type verifOut struct {
	recs  []verifRec
	err   bool
	panic string
	hang  bool
	score []int64
	acgt  [][4]int
}

func verifRun(f func(out *verifOut)) (out verifOut) {
	done := make(chan bool, 1)
	go func() {
		defer func() {
			if r := recover(); r != nil {
				out.panic = fmt.Sprint(r)
			}
			done <- true
		}()
		f(&out)
	}()
	select {
	case <-done:
	case <-time.After(3 * time.Second):
		out.hang = true
	}
	return
}

func verifReaders(text string) map[string]verifOut {
	res := map[string]verifOut{}
	res["ReadAlignment"] = verifRun(func(o *verifOut) {
		ch := make(chan FastaRecord, 1024)
		ce := make(chan error, 8)
		cd := make(chan bool, 1)
		ReadAlignment(strings.NewReader(text), ch, ce, cd)
		close(ch)
		for r := range ch {
			o.recs = append(o.recs, verifRec{r.ID, r.Description, r.Seq, r.Idx})
		}
		o.err = len(ce) > 0
	})
	dec := func(r EncodedFastaRecord) verifRec {
		return verifRec{r.ID, r.Description, r.Decode().Seq, r.Idx}
	}
	res["ReadEncodeAlignment"] = verifRun(func(o *verifOut) {
		ch := make(chan EncodedFastaRecord, 1024)
		ce := make(chan error, 8)
		cd := make(chan bool, 1)
		ReadEncodeAlignment(strings.NewReader(text), false, ch, ce, cd)
		close(ch)
		for r := range ch {
			o.recs = append(o.recs, dec(r))
		}
		o.err = len(ce) > 0
	})
	res["ReadEncodeScoreAlignment"] = verifRun(func(o *verifOut) {
		ch := make(chan EncodedFastaRecord, 1024)
		ce := make(chan error, 8)
		cd := make(chan bool, 1)
		ReadEncodeScoreAlignment(strings.NewReader(text), false, ch, ce, cd)
		close(ch)
		for r := range ch {
			o.recs = append(o.recs, dec(r))
			o.score = append(o.score, r.Score)
			o.acgt = append(o.acgt, [4]int{r.Count_A, r.Count_C, r.Count_G, r.Count_T})
		}
		o.err = len(ce) > 0
	})
	res["ReadEncodeAlignmentToList"] = verifRun(func(o *verifOut) {
		rs, err := ReadEncodeAlignmentToList(strings.NewReader(text), false)
		for _, r := range rs {
			o.recs = append(o.recs, dec(r))
		}
		o.err = err != nil
	})
	res["getAlignmentDims"] = verifRun(func(o *verifOut) {
		n, w, err := getAlignmentDims(strings.NewReader(text))
		o.err = err != nil
		o.recs = []verifRec{{Idx: n, Seq: strconv.Itoa(w)}}
	})
	return res
}

var verifBases = map[byte]int{'A': 1, 'C': 1, 'G': 1, 'T': 1, 'R': 2, 'Y': 2, 'S': 2, 'W': 2, 'K': 2, 'M': 2, 'B': 3, 'D': 3, 'H': 3, 'V': 3, 'N': 4, '-': 4, '?': 4}

func verifCheck(text string) (bool, string) {
	outs := verifReaders(text)
	for name, o := range outs {
		if o.panic != "" {
			return false, fmt.Sprintf("%s panics on %q: %s", name, text, o.panic)
		}
		if o.hang {
			return false, fmt.Sprintf("%s hangs on %q", name, text)
		}
	}
	for _, name := range []string{"ReadAlignment", "ReadEncodeAlignment", "ReadEncodeScoreAlignment", "ReadEncodeAlignmentToList"} {
		o := outs[name]
		want, werr := verifSpecParse(text, name != "ReadAlignment")
		if werr == "dontcare" {
			continue
		}
		if werr != "" {
			if !o.err {
				return false, fmt.Sprintf("%s accepts %q (%d records) although the input must be rejected (%s)", name, text, len(o.recs), werr)
			}
			continue
		}
		if o.err {
			return false, fmt.Sprintf("%s rejects the valid input %q", name, text)
		}
		if fmt.Sprint(o.recs) != fmt.Sprint(want) {
			return false, fmt.Sprintf("%s(%q) = %v, expected records %v", name, text, o.recs, want)
		}
		if name == "ReadEncodeScoreAlignment" {
			for i, r := range want {
				var sc int64
				var cnt [4]int
				for j := 0; j < len(r.Seq); j++ {
					sc += int64(12 / verifBases[r.Seq[j]])
					switch r.Seq[j] {
					case 'A':
						cnt[0]++
					case 'C':
						cnt[1]++
					case 'G':
						cnt[2]++
					case 'T':
						cnt[3]++
					}
				}
				if o.score[i] != sc || o.acgt[i] != cnt {
					return false, fmt.Sprintf("ReadEncodeScoreAlignment(%q) record %d: score %d counts %v, expected %d %v", text, i, o.score[i], o.acgt[i], sc, cnt)
				}
			}
		}
	}
	// getAlignmentDims: number of headers and width of the first record, on inputs the spec accepts
	if want, werr := verifSpecParse(text, false); werr == "" {
		o := outs["getAlignmentDims"]
		if o.err || o.recs[0].Idx != len(want) || o.recs[0].Seq != strconv.Itoa(len(want[0].Seq)) {
			return false, fmt.Sprintf("getAlignmentDims(%q) = (%d, %s), expected (%d, %d)", text, o.recs[0].Idx, o.recs[0].Seq, len(want), len(want[0].Seq))
		}
	}
	return true, ""
}

func TestVerifOracle(t *testing.T) {
	report := func(text string, detail string) {
		b, _ := json.Marshal(map[string]interface{}{"input": map[string]string{"text": text}, "detail": detail})
		fmt.Println("GFV-FAIL " + string(b))
	}
	if s := os.Getenv("GFV_INPUT"); s != "" {
		var in struct{ Text string `json:"text"` }
		if err := json.Unmarshal([]byte(s), &in); err != nil {
			t.Fatal(err)
		}
		if ok, d := verifCheck(in.Text); !ok {
			report(in.Text, d)
		}
		return
	}
	budget, _ := strconv.Atoi(os.Getenv("GFV_BUDGET_MS"))
	if budget == 0 {
		budget = 5000
	}
	deadline := time.Now().Add(time.Duration(budget) * time.Millisecond)
	syms := []byte{'>', 'A', 'c', 'x', ' ', '\n', '\r', 'n'}
	n := 0
	maxL := 0
	for L := 0; L <= 5; L++ {
		total := 1
		for i := 0; i < L; i++ {
			total *= len(syms)
		}
		for code := 0; code < total; code++ {
			b := make([]byte, L)
			c := code
			for i := range b {
				b[i] = syms[c%len(syms)]
				c /= len(syms)
			}
			n++
			if ok, d := verifCheck(string(b)); !ok {
				report(string(b), d)
				return
			}
		}
		maxL = L
	}
	// structured: every sequence of up to 4 FASTA fragments, one per line, with and without a final newline
	pieces := []string{">a", ">b c", ">", "> ", "ACGT", "acgtn", "AC-?", "RY", "x", "", "A\r", "N"}
	structured := 0
	for k := 1; k <= 4 && time.Now().Before(deadline); k++ {
		total := 1
		for i := 0; i < k; i++ {
			total *= len(pieces)
		}
		for code := 0; code < total; code++ {
			var parts []string
			c := code
			for i := 0; i < k; i++ {
				parts = append(parts, pieces[c%len(pieces)])
				c /= len(pieces)
			}
			for _, tail := range []string{"", "\n"} {
				text := strings.Join(parts, "\n") + tail
				n++
				structured++
				if ok, d := verifCheck(text); !ok {
					report(text, d)
					return
				}
			}
			if n%2000 == 0 && time.Now().After(deadline) {
				break
			}
		}
	}
	seed, _ := strconv.ParseInt(os.Getenv("VERIF_SEED"), 10, 64)
	rng := rand.New(rand.NewSource(seed))
	for time.Now().Before(deadline) {
		var sb strings.Builder
		for k := rng.Intn(10); k >= 0; k-- {
			sb.WriteString(pieces[rng.Intn(len(pieces))])
			if rng.Intn(3) > 0 {
				sb.WriteString("\n")
			}
		}
		n++
		if ok, d := verifCheck(sb.String()); !ok {
			report(sb.String(), d)
			return
		}
	}
	fmt.Printf("GFV-DONE %d byte streams (all strings over {>,A,c,x,space,LF,CR,n} up to length %d, %d line-structured inputs of up to 4 fragments, then seeded random ones)\n", n, maxL, structured)
}
