//go:build verif

package sam

//@ func checkArgs
//@   ensures implies(result4 == nil, 1 <= result1 && result1 <= result2 && result2 <= refLen)
//@   ensures implies(result4 == nil && trimstart != -1, result1 == trimstart)
//@   ensures implies(result4 == nil && trimstart == -1, result1 == 1)
//@   ensures implies(result4 == nil && trimend != -1, result2 == trimend)
//@   ensures implies(result4 == nil && trimend == -1, result2 == refLen)
//@   ensures implies(result4 == nil, result3 == (trimstart != -1 || trimend != -1))
//@   ensures (result4 == nil) == (1 <= ite(trimstart == -1, 1, trimstart) && ite(trimstart == -1, 1, trimstart) <= ite(trimend == -1, refLen, trimend) && ite(trimend == -1, refLen, trimend) <= refLen)

//@ func swapInNs
//@   modifies seq
//@   loop 1:
//@     invariant forall(j, 0, i, seq[j] == ite(old(seq[j]) == '*', 'N', old(seq[j])))
//@     invariant forall(j, i, len(seq), seq[j] == old(seq[j]))
//@   ensures sameslice(result, seq)
//@   ensures forall(j, 0, len(seq), seq[j] == ite(old(seq[j]) == '*', 'N', old(seq[j])))
