package main

// Assumed contracts of library functions (DESIGN §4). Every use is recorded in Ctx.trusted and
// ends up in the evidence file of the property whose obligations used it.

import (
	"go/constant"
	"fmt"
	"go/ast"
	"go/types"
	"strings"
)

type libHandler func(x *Exec, n *ast.CallExpr, recv *Val, recvExpr ast.Expr, st *State, env *Env) Val

var libHandlers map[string]libHandler

func init() {
	libHandlers = map[string]libHandler{
		"errors.New":              libNewErr,
		"fmt.Errorf":              libNewErr,
		"strconv.Itoa":            libItoa,
		"strconv.FormatFloat":     libFormatFloat,
		"strconv.Atoi":            libAtoi,
		"strings.Join":            libJoin,
		"strings.ToUpper":         libStrFun("gs.upper"),
		"(*os.File).WriteString":  libNoop,
		"fmt.Fprintf":             libFprint,
		"fmt.Fprintln":            libFprint,
		"fmt.Fprint":              libFprint,
		"(io.Writer).Write":       libWrite,
		"io.WriteString":          libWriteString,
		"unicode/utf8.DecodeRune": libDecodeRune,
		"unicode.IsLetter":        libIsLetter,
		"math.Log":                libLog,
		"math.IsNaN":              libIsNaN,
		"math.Floor":              libFloor,
		"sort.SearchInts":         libSearch,
		"(github.com/biogo/hts/sam.CigarOp).Type":       libCigType,
		"(github.com/biogo/hts/sam.CigarOpType).String": libCigTypeString,
		"(github.com/biogo/hts/sam.CigarOp).Len":        libCigLen,
		"(github.com/biogo/hts/sam.Seq).Expand":         libSeqExpand,
		"github.com/biogo/hts/sam.NewReader":            libSamNewReader,
		"(*github.com/biogo/hts/sam.Reader).Header":     libSamHeader,
		"(*github.com/biogo/hts/sam.Reader).Read":       libSamRead,
		"sort.SearchStrings":                            libSearch,
		"sort.SliceStable":                              libSortSlice,
		"sort.Sort":                                     libSortSort,
		"sort.Stable":                                   libSortSort,
		"bufio.NewScanner":                              libNewScanner,
		"(*bufio.Scanner).Buffer":                       libScannerBuffer,
		"(*bufio.Scanner).Scan":                         libScannerScan,
		"(*bufio.Scanner).Bytes":                        libScannerBytes,
		"(*bufio.Scanner).Text":                         libScannerText,
		"(*bufio.Scanner).Err":                          libScannerErr,
		"strings.Fields":                                libFields,
		"strings.Split":                                 libSplit,
		"encoding/csv.NewReader":                        libNewCSVReader,
		"(*encoding/csv.Reader).Read":                   libCSVRead,
		"sort.Slice":                                    libSortSlice,
		"(*sync.WaitGroup).Add":                         libSyncNoop,
		"(*sync.WaitGroup).Done":                        libSyncNoop,
		"(*sync.WaitGroup).Wait":                        libSyncNoop,
	}
}

// sync.WaitGroup methods: no effect in the sequential model (arguments evaluated)
func libSyncNoop(x *Exec, n *ast.CallExpr, recv *Val, recvExpr ast.Expr, st *State, env *Env) Val {
	for _, a := range n.Args {
		x.evalQuiet(a, st, env)
	}
	x.c.notes["sync.WaitGroup is opaque: Add/Done/Wait are no-ops in the sequential model"] = true
	return Val{}
}

func libNoop(x *Exec, n *ast.CallExpr, recv *Val, recvExpr ast.Expr, st *State, env *Env) Val {
	if recvExpr != nil && !isStderr(recvExpr) {
		// a file opened by the function itself: not a modelled writer; the call returns an arbitrary (n, err) and touches
		// nothing the contracts can see
		x.c.notes["(*os.File).WriteString on a file opened by the function: arbitrary result, no ghost state (file contents are not modelled)"] = true
		for _, a := range n.Args {
			x.evalQuiet(a, st, env)
		}
		return Val{Tuple: []Val{{T: x.c.freshConst("nwritten", "Int"), Ty: tInt}, {T: x.c.freshConst("werr", sortErr), Ty: tError}}}
	}
	x.c.notes["writes to os.Stderr treated as no-ops"] = true
	for _, a := range n.Args {
		x.evalQuiet(a, st, env)
	}
	return Val{Tuple: []Val{{T: "0", Ty: tInt}, {T: "err.nil", Ty: tError}}}
}

// evalQuiet evaluates an argument only for its safety obligations; failures to model it are ignored (diagnostic strings).
func (x *Exec) evalQuiet(e ast.Expr, st *State, env *Env) {
	saved := x.c.inContract
	defer func() {
		x.c.inContract = saved
		if r := recover(); r != nil {
			if _, ok := r.(unsupportedErr); !ok {
				panic(r)
			}
		}
	}()
	x.eval(e, st, env)
}

func isStderr(e ast.Expr) bool {
	s, ok := e.(*ast.SelectorExpr)
	if !ok {
		return false
	}
	id, ok := s.X.(*ast.Ident)
	return ok && id.Name == "os" && s.Sel.Name == "Stderr"
}

func libFprint(x *Exec, n *ast.CallExpr, recv *Val, recvExpr ast.Expr, st *State, env *Env) Val {
	if len(n.Args) > 0 && isStderr(n.Args[0]) {
		x.c.notes["writes to os.Stderr treated as no-ops"] = true
		for _, a := range n.Args[1:] {
			x.evalQuiet(a, st, env)
		}
		return Val{Tuple: []Val{{T: "0", Ty: tInt}, {T: "err.nil", Ty: tError}}}
	}
	if name := calleeOf(n, env.info).Name(); name == "Fprint" || name == "Fprintln" {
		return libFprintW(x, n, recv, recvExpr, st, env)
	}
	panic(unsupported("fmt.Fprintf to a writer other than os.Stderr"))
}

func libNewErr(x *Exec, n *ast.CallExpr, recv *Val, recvExpr ast.Expr, st *State, env *Env) Val {
	e := x.c.freshConst("err", sortErr)
	x.c.assume("true", not(eq(e, "err.nil")))
	for _, a := range n.Args {
		x.evalQuiet(a, st, env)
	}
	return Val{T: e, Ty: tError}
}

func libItoa(x *Exec, n *ast.CallExpr, recv *Val, recvExpr ast.Expr, st *State, env *Env) Val {
	v := x.defaultType(x.eval(n.Args[0], st, env))
	x.c.trusted["strconv.Itoa: uninterpreted, injective via Atoi(Itoa n) = n"] = true
	return Val{T: app("gs.itoa", v.T), Ty: tString}
}

func libAtoi(x *Exec, n *ast.CallExpr, recv *Val, recvExpr ast.Expr, st *State, env *Env) Val {
	v := x.eval(n.Args[0], st, env)
	x.c.trusted["strconv.Atoi: value and error are uninterpreted functions of the argument, with Atoi(Itoa n) = n"] = true
	x.c.declare("gs.atoierr", "(declare-fun gs.atoierr (Str) "+sortErr+")")
	return Val{Tuple: []Val{{T: app("gs.atoi", v.T), Ty: tInt}, {T: app("gs.atoierr", v.T), Ty: tError}}}
}

func libFormatFloat(x *Exec, n *ast.CallExpr, recv *Val, recvExpr ast.Expr, st *State, env *Env) Val {
	v := x.defaultType(x.eval(n.Args[0], st, env))
	x.c.trusted["strconv.FormatFloat: uninterpreted function of the value and of its format arguments; the contracts' fmtfloat(x) is FormatFloat(x, 'f', 9, 64), the form used throughout the code base"] = true
	// any other format, precision or bit size is a different function of the value
	std := len(n.Args) == 4
	want := []int64{'f', 9, 64}
	for i := 1; i < len(n.Args) && std; i++ {
		tv, ok := env.info.Types[n.Args[i]]
		if !ok || tv.Value == nil {
			std = false
			break
		}
		if c, ok := constant.Int64Val(constant.ToInt(tv.Value)); !ok || c != want[i-1] {
			std = false
		}
	}
	if !std {
		x.c.declare("gs.fmtfloat.other", "(declare-fun gs.fmtfloat.other (F64) Str)")
		return Val{T: app("gs.fmtfloat.other", v.T), Ty: tString}
	}
	return Val{T: app("gs.fmtfloat", v.T), Ty: tString}
}

func libJoin(x *Exec, n *ast.CallExpr, recv *Val, recvExpr ast.Expr, st *State, env *Env) Val {
	// strings.Join([]string{a, b, c}, sep) with a literal element list: the concatenation a + sep + b + sep + c itself
	if cl, ok := n.Args[0].(*ast.CompositeLit); ok && len(cl.Elts) >= 1 && len(cl.Elts) <= 8 {
		plain := true
		for _, e := range cl.Elts {
			if _, kv := e.(*ast.KeyValueExpr); kv {
				plain = false
			}
		}
		if plain {
			sep := x.eval(n.Args[1], st, env)
			if sep.Ty == nil {
				sep = x.materialize(sep, tString)
			}
			t := ""
			for i, e := range cl.Elts {
				v := x.eval(e, st, env)
				if v.Ty == nil {
					v = x.materialize(v, tString)
				}
				if i == 0 {
					t = v.T
				} else {
					t = app("gs.cat", app("gs.cat", t, sep.T), v.T)
				}
			}
			return Val{T: t, Ty: tString}
		}
	}
	s := x.eval(n.Args[0], st, env)
	sep := x.eval(n.Args[1], st, env)
	x.c.declare("gs.join", "(declare-fun gs.join ((Array Int Str) Int Int Str) Str)")
	ref, off, ln, _ := x.sliceParts(s)
	h := x.heap(st, sortStr)
	x.c.trusted["strings.Join: uninterpreted function of the element sequence and separator"] = true
	return Val{T: app("gs.join", app("select", h, ref), off, ln, sep.T), Ty: tString}
}

func libStrFun(name string) libHandler {
	return func(x *Exec, n *ast.CallExpr, recv *Val, recvExpr ast.Expr, st *State, env *Env) Val {
		v := x.eval(n.Args[0], st, env)
		x.c.declare(name, fmt.Sprintf("(declare-fun %s (Str) Str)", name))
		if name == "gs.upper" {
			x.c.declare(name+".len", fmt.Sprintf("(assert (forall ((s Str)) (! (= (gs.len (%s s)) (gs.len s)) :pattern ((%s s)))))", name, name))
		}
		x.c.trusted[name+": uninterpreted"] = true
		return Val{T: app(name, v.T), Ty: tString}
	}
}

func libLog(x *Exec, n *ast.CallExpr, recv *Val, recvExpr ast.Expr, st *State, env *Env) Val {
	v := x.defaultType(x.eval(n.Args[0], st, env))
	x.c.trusted["math.Log: uninterpreted real function; NaN for NaN or negative argument"] = true
	val := x.c.accessor("f.val", v.T)
	return Val{T: app("mkF64", or(x.c.accessor("f.nan", v.T), app("<", val, "0.0")), app("f.log", val)), Ty: tFloat}
}

// io.Writer.Write: the adversary of C19 – any call may fail.
func libWrite(x *Exec, n *ast.CallExpr, recv *Val, recvExpr ast.Expr, st *State, env *Env) Val {
	c := x.c
	arg := x.eval(n.Args[0], st, env)
	nres := c.freshConst("nwritten", "Int")
	e := c.freshConst("werr", sortErr)
	if recv == nil {
		panic(unsupported("Write without receiver value"))
	}
	fk := "failed:" + recv.T
	if cur, ok := st.gh[fk]; ok {
		st.gh[fk] = Val{T: c.define("failed", "Bool", or(cur.T, not(eq(e, "err.nil")))), Ty: tBool}
	} else {
		panic(unsupported("Write on a writer without ghost state"))
	}
	wk := "written:" + recv.T
	if cur, ok := st.gh[wk]; ok {
		ref, off, ln, _ := x.sliceParts(arg)
		h := x.heap(st, sortBV8)
		str := app("gs.frombytes", app("select", h, ref), off, ln)
		s := *cur.Seq
		s.Arr = c.define("wlog", "(Array Int Str)", app("store", cur.Seq.Arr, cur.Seq.N, str))
		s.N = c.define("wlog.n", "Int", add(cur.Seq.N, "1"))
		st.gh[wk] = Val{Seq: &s, Ty: cur.Ty}
	}
	c.trusted["io.Writer.Write: returns an arbitrary (n, err); ghost failed(w) set iff err != nil (adversarial writer)"] = true
	return Val{Tuple: []Val{{T: nres, Ty: tInt}, {T: e, Ty: tError}}}
}

func libDecodeRune(x *Exec, n *ast.CallExpr, recv *Val, recvExpr ast.Expr, st *State, env *Env) Val {
	s := x.eval(n.Args[0], st, env)
	b := x.sliceRead(st, s, "0")
	x.c.notes["range over a string yields one rune per byte (ASCII model: rune = byte value)"] = true
	x.c.trusted["utf8.DecodeRune on a one-byte slice: the byte itself below 0x80, RuneError otherwise"] = true
	return Val{Tuple: []Val{{T: app("rune.ofbyte", b.T), Ty: types.Typ[types.Rune]}, {T: "1", Ty: tInt}}}
}

func libIsLetter(x *Exec, n *ast.CallExpr, recv *Val, recvExpr ast.Expr, st *State, env *Env) Val {
	r := x.eval(n.Args[0], st, env)
	x.c.trusted["unicode.IsLetter(DecodeRune([]byte{b})) == ('A'<=b<='Z' || 'a'<=b<='z') (validated exhaustively over 256 bytes in the thorough tier)"] = true
	t := r.T
	// resolve definitional names
	if h, args, ok := splitSexp(x.c.resolveDef(t)); ok && h == "rune.ofbyte" {
		b := args[0]
		return Val{T: isLetterBV(b), Ty: tBool}
	}
	x.c.declare("unicode.isletter", "(declare-fun unicode.isletter (Int) Bool)")
	return Val{T: app("unicode.isletter", t), Ty: tBool}
}

func isLetterBV(b string) string {
	return or(and(app("bvule", "#x41", b), app("bvule", b, "#x5a")), and(app("bvule", "#x61", b), app("bvule", b, "#x7a")))
}

// resolveAlias follows name = name definitions
func (c *Ctx) resolveAlias(t string) string {
	for i := 0; i < 8; i++ {
		d, ok := c.defs[t]
		if !ok || strings.HasPrefix(d, "(") {
			return t
		}
		t = d
	}
	return t
}

// resolveDef follows "name = term" definitions introduced by define()
func (c *Ctx) resolveDef(t string) string {
	for i := 0; i < 8; i++ {
		d, ok := c.defs[t]
		if !ok {
			return t
		}
		t = d
	}
	return t
}

// sort.Slice / sort.SliceStable with an inline comparator: result is a permutation of the input, ordered by less.
// Stability only for SliceStable.
func libSortSlice(x *Exec, n *ast.CallExpr, recv *Val, recvExpr ast.Expr, st *State, env *Env) Val {
	c := x.c
	stable := strings.HasSuffix(calleeOf(n, env.info).FullName(), "Stable")
	s := x.eval(n.Args[0], st, env)
	lit, ok := n.Args[1].(*ast.FuncLit)
	if !ok {
		panic(unsupported("sort.Slice with a non-literal comparator"))
	}
	et := x.elemType(s.Ty)
	es := c.sortOf(et)
	ref, off, ln, _ := x.sliceParts(s)
	h := x.heap(st, es)
	oldArr := c.define("sortin", "(Array Int "+es+")", app("select", h, ref))
	newArr := c.freshConst("sorted", "(Array Int "+es+")")
	x.noteWrite(st, ref, n.Pos(), x.ord[n])
	st.heaps[es] = c.define("H", c.heapName(es), app("store", h, ref, newArr))
	// permutation p (new index -> old index) and inverse q
	p := c.freshName("perm")
	q := c.freshName("iperm")
	c.declare(p, fmt.Sprintf("(declare-fun %s (Int) Int)", p))
	c.declare(q, fmt.Sprintf("(declare-fun %s (Int) Int)", q))
	c.assumes = append(c.assumes,
		fmt.Sprintf("(forall ((j Int)) (! (=> (and (<= 0 j) (< j %s)) (and (<= 0 (%s j)) (< (%s j) %s) (= (%s (%s j)) j) (= (select %s (+ %s j)) (select %s (+ %s (%s j)))))) :pattern ((%s j))))", ln, p, p, ln, q, p, newArr, off, oldArr, off, p, p),
		fmt.Sprintf("(forall ((j Int)) (! (=> (and (<= 0 j) (< j %s)) (and (<= 0 (%s j)) (< (%s j) %s) (= (%s (%s j)) j))) :pattern ((%s j))))", ln, q, q, ln, p, q, q),
		fmt.Sprintf("(forall ((j Int)) (! (=> (or (< j %s) (>= j (+ %s %s))) (= (select %s j) (select %s j))) :pattern ((select %s j))))", off, off, ln, newArr, oldArr, newArr))
	// less(i,j) evaluated on the sorted array: the comparator body must be a single return of a boolean expression
	// over s[i], s[j] (checked syntactically)
	var ret *ast.ReturnStmt
	if len(lit.Body.List) == 1 {
		ret, _ = lit.Body.List[0].(*ast.ReturnStmt)
	}
	if ret == nil || len(ret.Results) != 1 {
		// comparator with statements (and possibly channel sends): only "the result is a permutation of the input" is
		// assumed, no ordering facts; channels it may send on are advanced by an unknown number of items
		c.trusted["sort with a multi-statement comparator: permutation of the input only (no ordering assumed)"] = true
		all, handles := x.ghostHandlesIn(lit.Body, st, env)
		for _, k := range sortedGhostKeys(st.gh) {
			v := st.gh[k]
			if i := strings.Index(k, ":"); i >= 0 && !all && !handles[k[i+1:]] {
				continue
			}
			if strings.HasPrefix(k, "sent:") {
				sq := *v.Seq
				sq.Arr = c.freshConst(k, "(Array Int "+sq.ESort+")")
				sq.N = c.freshConst(k+".n", "Int")
				c.assume("true", app(">=", sq.N, v.Seq.N))
				c.assumes = append(c.assumes, fmt.Sprintf("(forall ((j Int)) (! (=> (and (<= 0 j) (< j %s)) (= (select %s j) (select %s j))) :pattern ((select %s j))))", v.Seq.N, sq.Arr, v.Seq.Arr, sq.Arr))
				st.gh[k] = Val{Seq: &sq, Ty: v.Ty}
			}
		}
		x.lastPerm = [2]string{p, q}
		x.lastLess = nil
		// a loop-free comparator body (assignments, ifs, sends, one or more returns) is executed symbolically for an
		// arbitrary pair (i, j) to obtain less(i, j); anything else: permutation only
		loopFree := true
		ast.Inspect(lit.Body, func(nd ast.Node) bool {
			switch nd.(type) {
			case *ast.ForStmt, *ast.RangeStmt, *ast.GoStmt, *ast.DeferStmt, *ast.SelectStmt, *ast.FuncLit, *ast.LabeledStmt:
				loopFree = false
			}
			return loopFree
		})
		sig, _ := env.info.TypeOf(lit).(*types.Signature)
		if !loopFree || sig == nil || sig.Params().Len() != 2 {
			return Val{}
		}
		fiLit := &FuncInfo{Key: x.fi.Key + "$less", Pkg: x.fi.Pkg, Lit: lit, Body: lit.Body, Sig: sig, Type: lit.Type}
		lessBody := func(cur *State, a, b string) (t string, ok bool) {
			defer func() {
				if r := recover(); r != nil {
					if _, isU := r.(unsupportedErr); isU {
						t, ok = "", false
						return
					}
					panic(r)
				}
			}()
			saved := x.c.inContract
			x.c.inContract++
			defer func() { x.c.inContract = saved }()
			nObl := len(x.obligs)
			v := x.inlineBody(fiLit, nil, []Val{{T: a, Ty: tInt}, {T: b, Ty: tInt}}, cur.clone(), n)
			x.obligs = x.obligs[:nObl]
			return x.defaultType(v).T, true
		}
		a := c.freshName("a")
		b := c.freshName("b")
		ra := "(- " + a + " " + off + ")"
		rb := "(- " + b + " " + off + ")"
		rng := fmt.Sprintf("(and (<= %s %s) (< %s %s) (< %s (+ %s %s)))", off, a, a, b, b, off, ln)
		lba, ok1 := lessBody(st, rb, ra)
		lab, ok2 := lessBody(st, ra, rb)
		if !ok1 || !ok2 {
			return Val{}
		}
		delete(c.trusted, "sort with a multi-statement comparator: permutation of the input only (no ordering assumed)")
		c.assumes = append(c.assumes, fmt.Sprintf("(forall ((%s Int) (%s Int)) (=> %s (not %s)))", a, b, rng, lba))
		if stable {
			c.assumes = append(c.assumes, fmt.Sprintf("(forall ((%s Int) (%s Int)) (=> (and %s (not %s)) (< (%s %s) (%s %s))))", a, b, rng, lab, p, ra, p, rb))
			c.trusted["sort.SliceStable: permutation of the input, ordered by the comparator, equal elements keep their order"] = true
		} else {
			c.trusted["sort.Slice: permutation of the input, ordered by the comparator (no stability)"] = true
		}
		c.trusted["multi-statement comparator executed symbolically (loop-free body); its own safety (index/slice bounds inside the closure) is not checked"] = true
		x.lastLess = func(cur *State, a, b string) string {
			t, ok := lessBody(cur, a, b)
			if !ok {
				panic(unsupported("sortless(): the comparator could not be evaluated"))
			}
			return t
		}
		return Val{}
	}
	pi := lit.Type.Params.List[0].Names
	var iName, jName string
	if len(pi) == 2 {
		iName, jName = pi[0].Name, pi[1].Name
	} else {
		iName = pi[0].Name
		jName = lit.Type.Params.List[1].Names[0].Name
	}
	iObj := env.info.Defs[lit.Type.Params.List[0].Names[0]]
	var jObj types.Object
	if len(pi) == 2 {
		jObj = env.info.Defs[pi[1]]
	} else {
		jObj = env.info.Defs[lit.Type.Params.List[1].Names[0]]
	}
	_ = iName
	_ = jName
	less := func(a, b string) string {
		tmp := st.clone()
		tmp.vars[iObj] = Val{T: a, Ty: tInt}
		tmp.vars[jObj] = Val{T: b, Ty: tInt}
		x.c.inContract++
		v := x.eval(ret.Results[0], tmp, env)
		x.c.inContract--
		return x.defaultType(v).T
	}
	x.lastLess = func(cur *State, a, b string) string {
		tmp := cur.clone()
		tmp.vars[iObj] = Val{T: a, Ty: tInt}
		tmp.vars[jObj] = Val{T: b, Ty: tInt}
		x.c.inContract++
		defer func() { x.c.inContract-- }()
		return x.defaultType(x.eval(ret.Results[0], tmp, env)).T
	}
	a := c.freshName("a")
	b := c.freshName("b")
	// quantify over absolute array positions A, B in [off, off+len): the comparator then reads (select arr A) directly
	ra := "(- " + a + " " + off + ")"
	rb := "(- " + b + " " + off + ")"
	rng := fmt.Sprintf("(and (<= %s %s) (< %s %s) (< %s (+ %s %s)))", off, a, a, b, b, off, ln)
	// sortedness: for a < b not less(b, a)
	c.assumes = append(c.assumes, fmt.Sprintf("(forall ((%s Int) (%s Int)) (=> %s (not %s)))", a, b, rng, less(rb, ra)))
	if stable {
		// equal elements keep their relative order: a < b and !less(a,b) and !less(b,a) => p(a) < p(b)
		c.assumes = append(c.assumes, fmt.Sprintf("(forall ((%s Int) (%s Int)) (=> (and %s (not %s)) (< (%s %s) (%s %s))))", a, b, rng, less(ra, rb), p, ra, p, rb))
		c.trusted["sort.SliceStable: permutation of the input, ordered by the comparator, equal elements keep their order"] = true
	} else {
		c.trusted["sort.Slice: permutation of the input, ordered by the comparator (no stability)"] = true
	}
	st.gh["g:lastperm"] = Val{T: p, Ty: tInt}
	x.lastPerm = [2]string{p, q}
	return Val{}
}

// bufio.Scanner with the default ScanLines split: a finite ghost sequence of lines (byte slices in the heap, arbitrary
// contents), a position, and an arbitrary final error.
func libNewScanner(x *Exec, n *ast.CallExpr, recv *Val, recvExpr ast.Expr, st *State, env *Env) Val {
	c := x.c
	h := c.freshConst("scanner", "Int")
	arr := c.freshConst("lines", "(Array Int Slice)")
	cnt := c.freshConst("lines.n", "Int")
	c.assume("true", app(">=", cnt, "0"))
	st.gh["scan:"+h] = Val{Seq: &SeqVal{Arr: arr, N: cnt, Elem: types.NewSlice(tByte), ESort: sortSlice}}
	st.gh["scanpos:"+h] = Val{T: "0", Ty: tInt}
	x.heap(st, sortBV8)
	// every line is a well-formed slice over an array that exists before the call
	c.assumes = append(c.assumes, fmt.Sprintf("(forall ((j Int)) (! (and (< 0 (s.ref (select %s j))) (< (s.ref (select %s j)) %s) (<= 0 (s.off (select %s j))) (<= 0 (s.len (select %s j))) (<= (s.len (select %s j)) (s.cap (select %s j)))) :pattern ((select %s j))))", arr, arr, st.alloc, arr, arr, arr, arr, arr))
	c.trusted["bufio.Scanner (ScanLines): yields a finite sequence of lines with arbitrary bytes, then Scan() = false; Err() arbitrary"] = true
	x.scannerHandle = h
	return Val{T: h, Ty: env.info.TypeOf(n)}
}

func libScannerBuffer(x *Exec, n *ast.CallExpr, recv *Val, recvExpr ast.Expr, st *State, env *Env) Val {
	for _, a := range n.Args {
		x.eval(a, st, env)
	}
	return Val{}
}

func scannerState(x *Exec, recv *Val, st *State) (string, Val, Val) {
	if recv == nil {
		panic(unsupported("scanner method without receiver"))
	}
	h := x.c.resolveAlias(recv.T)
	seq, ok := st.gh["scan:"+h]
	if !ok {
		panic(unsupported("scanner without ghost state"))
	}
	return h, seq, st.gh["scanpos:"+h]
}

func libScannerScan(x *Exec, n *ast.CallExpr, recv *Val, recvExpr ast.Expr, st *State, env *Env) Val {
	h, seq, pos := scannerState(x, recv, st)
	more := x.c.define("more", "Bool", app("<", pos.T, seq.Seq.N))
	st.gh["scanpos:"+h] = Val{T: x.c.define("scanpos", "Int", ite(more, add(pos.T, "1"), pos.T)), Ty: tInt}
	return Val{T: more, Ty: tBool}
}

func libScannerBytes(x *Exec, n *ast.CallExpr, recv *Val, recvExpr ast.Expr, st *State, env *Env) Val {
	_, seq, pos := scannerState(x, recv, st)
	v := Val{T: x.c.define("line", sortSlice, app("select", seq.Seq.Arr, sub(pos.T, "1"))), Ty: types.NewSlice(tByte)}
	x.assumeWFAtom(st, v)
	return v
}

func libScannerText(x *Exec, n *ast.CallExpr, recv *Val, recvExpr ast.Expr, st *State, env *Env) Val {
	b := libScannerBytes(x, n, recv, recvExpr, st, env)
	return x.convert(tString, b, st)
}

func libScannerErr(x *Exec, n *ast.CallExpr, recv *Val, recvExpr ast.Expr, st *State, env *Env) Val {
	return Val{T: x.c.freshConst("scanerr", sortErr), Ty: tError}
}

// strings.Fields: a fresh slice of strings of unknown length >= 0 determined by the argument
func libFields(x *Exec, n *ast.CallExpr, recv *Val, recvExpr ast.Expr, st *State, env *Env) Val {
	c := x.c
	v := x.eval(n.Args[0], st, env)
	c.declare("gs.nfields", "(declare-fun gs.nfields (Str) Int)")
	c.declare("gs.fields", "(declare-fun gs.fields (Str) (Array Int Str))")
	c.declare("gs.nfields.ax", "(assert (forall ((s Str)) (! (>= (gs.nfields s) 0) :pattern ((gs.nfields s)))))")
	ref := x.allocArray(st, sortStr, app("gs.fields", v.T))
	ln := app("gs.nfields", v.T)
	c.trusted["strings.Fields: uninterpreted (number of fields >= 0, field contents a function of the argument)"] = true
	return Val{T: c.define("sl", sortSlice, app("mkSlice", ref, "0", ln, ln)), Ty: types.NewSlice(tString)}
}

// strings.Split(s, sep) with a non-empty separator: a fresh slice of at least one string, contents a function of (s, sep)
func libSplit(x *Exec, n *ast.CallExpr, recv *Val, recvExpr ast.Expr, st *State, env *Env) Val {
	c := x.c
	v := x.eval(n.Args[0], st, env)
	sep := x.eval(n.Args[1], st, env)
	c.declare("gs.nsplit", "(declare-fun gs.nsplit (Str Str) Int)")
	c.declare("gs.split", "(declare-fun gs.split (Str Str) (Array Int Str))")
	c.declare("gs.nsplit.ax", "(assert (forall ((s Str) (p Str)) (! (>= (gs.nsplit s p) 1) :pattern ((gs.nsplit s p)))))")
	ref := x.allocArray(st, sortStr, app("gs.split", v.T, sep.T))
	ln := app("gs.nsplit", v.T, sep.T)
	c.trusted["strings.Split (non-empty separator): uninterpreted; at least one element; contents a function of the arguments"] = true
	return Val{T: c.define("sl", sortSlice, app("mkSlice", ref, "0", ln, ln)), Ty: types.NewSlice(tString)}
}

// encoding/csv.Reader: a finite ghost sequence of records, each a []string with the same number of fields as the first
// (FieldsPerRecord = 0), then io.EOF; any Read may instead fail with a parse error.
func libNewCSVReader(x *Exec, n *ast.CallExpr, recv *Val, recvExpr ast.Expr, st *State, env *Env) Val {
	c := x.c
	h := c.freshConst("csvreader", "Int")
	arr := c.freshConst("csvrows", "(Array Int Slice)")
	cnt := c.freshConst("csvrows.n", "Int")
	c.assume("true", app(">=", cnt, "0"))
	st.gh["scan:"+h] = Val{Seq: &SeqVal{Arr: arr, N: cnt, Elem: types.NewSlice(tString), ESort: sortSlice}}
	st.gh["scanpos:"+h] = Val{T: "0", Ty: tInt}
	x.heap(st, sortStr)
	c.assumes = append(c.assumes, fmt.Sprintf("(forall ((j Int)) (! (and (< 0 (s.ref (select %s j))) (< (s.ref (select %s j)) %s) (<= 0 (s.off (select %s j))) (<= 0 (s.len (select %s j))) (<= (s.len (select %s j)) (s.cap (select %s j))) (= (s.len (select %s j)) (s.len (select %s 0)))) :pattern ((select %s j))))", arr, arr, st.alloc, arr, arr, arr, arr, arr, arr, arr))
	c.trusted["encoding/csv.Reader: yields a finite sequence of records with equal numbers of fields, then io.EOF; any Read may fail with a parse error"] = true
	return Val{T: h, Ty: env.info.TypeOf(n)}
}

func libCSVRead(x *Exec, n *ast.CallExpr, recv *Val, recvExpr ast.Expr, st *State, env *Env) Val {
	c := x.c
	h, seq, pos := scannerState(x, recv, st)
	more := c.define("more", "Bool", app("<", pos.T, seq.Seq.N))
	bad := c.freshConst("csvbad", "Bool")
	perr := c.freshConst("csverr", sortErr)
	eof := x.pkgVar("io", "EOF", tError)
	c.assume("true", and(not(eq(perr, "err.nil")), not(eq(perr, eof)), not(eq(eof, "err.nil"))))
	st.gh["scanpos:"+h] = Val{T: c.define("scanpos", "Int", ite(and(more, not(bad)), add(pos.T, "1"), pos.T)), Ty: tInt}
	rec := Val{T: c.define("record", sortSlice, ite(and(more, not(bad)), app("select", seq.Seq.Arr, pos.T), "(mkSlice 0 0 0 0)")), Ty: types.NewSlice(tString)}
	x.assumeWFAtom(st, rec)
	err := Val{T: c.define("err", sortErr, ite(more, ite(bad, perr, "err.nil"), eof)), Ty: tError}
	return Val{Tuple: []Val{rec, err}}
}

func (x *Exec) pkgVar(pkg, name string, ty types.Type) string {
	n := "glob_" + pkg + "_" + name
	x.c.declare(n, fmt.Sprintf("(declare-fun %s () %s)", n, x.c.sortOf(ty)))
	return n
}

func libIsNaN(x *Exec, n *ast.CallExpr, recv *Val, recvExpr ast.Expr, st *State, env *Env) Val {
	v := x.defaultType(x.eval(n.Args[0], st, env))
	return Val{T: x.c.accessor("f.nan", v.T), Ty: tBool}
}

func libFloor(x *Exec, n *ast.CallExpr, recv *Val, recvExpr ast.Expr, st *State, env *Env) Val {
	v := x.defaultType(x.eval(n.Args[0], st, env))
	return Val{T: app("f.floor", v.T), Ty: tFloat}
}

// sort.SearchInts / sort.SearchStrings: on an ascending slice, the least index whose element is >= x (len if none).
// Sortedness is an obligation at the call site (pre@sort.Search); the characterisation is assumed only under it.
func libSearch(x *Exec, n *ast.CallExpr, recv *Val, recvExpr ast.Expr, st *State, env *Env) Val {
	c := x.c
	a := x.eval(n.Args[0], st, env)
	et := x.elemType(a.Ty)
	v := x.coerce(x.eval(n.Args[1], st, env), et)
	es := c.sortOf(et)
	ref, off, ln, _ := x.sliceParts(a)
	h := x.heap(st, es)
	arr := c.define("arr", "(Array Int "+es+")", app("select", h, ref))
	lt := func(p, q string) string {
		if isString(et) {
			return app("gs.lt", p, q)
		}
		return app("<", p, q)
	}
	i := c.freshName("i")
	j := c.freshName("j")
	sorted := fmt.Sprintf("(forall ((%s Int) (%s Int)) (=> (and (<= %s %s) (< %s %s) (< %s (+ %s %s))) (not %s)))", i, j, off, i, i, j, j, off, ln, lt(app("select", arr, j), app("select", arr, i)))
	x.oblige("pre@sort.Search", x.ord[n], n.Pos(), st, sorted, "slice passed to sort.Search* is in ascending order")
	c.assume(st.pc, sorted)
	idx := c.freshConst("idx", "Int")
	k := c.freshName("k")
	c.assume(st.pc, and(app("<=", "0", idx), app("<=", idx, ln),
		fmt.Sprintf("(forall ((%s Int)) (=> (and (<= %s %s) (< %s (+ %s %s))) %s))", k, off, k, k, off, idx, lt(app("select", arr, k), v.T)),
		fmt.Sprintf("(forall ((%s Int)) (=> (and (<= (+ %s %s) %s) (< %s (+ %s %s))) (not %s)))", k, off, idx, k, k, off, ln, lt(app("select", arr, k), v.T))))
	c.trusted["sort.SearchInts/SearchStrings: least index with element >= x on an ascending slice (sortedness checked at the call site)"] = true
	return Val{T: idx, Ty: tInt}
}

// biogo/hts sam: CIGAR operations are opaque integers with an operation type (a byte whose String() is one of
// M I D N S H P = X B ?) and a non-negative length; Seq.Expand() returns a fresh byte slice of Seq.Length bytes.
func libCigType(x *Exec, n *ast.CallExpr, recv *Val, recvExpr ast.Expr, st *State, env *Env) Val {
	x.c.trusted["biogo/hts sam.CigarOp.Type/Len, CigarOpType.String, Seq.Expand: uninterpreted with Len() >= 0 and Expand() a fresh slice of Seq.Length bytes"] = true
	return Val{T: app("cig.type", recv.T), Ty: env.info.TypeOf(n)}
}
func libCigTypeString(x *Exec, n *ast.CallExpr, recv *Val, recvExpr ast.Expr, st *State, env *Env) Val {
	return Val{T: app("cig.typestr", recv.T), Ty: tString}
}
func libCigLen(x *Exec, n *ast.CallExpr, recv *Val, recvExpr ast.Expr, st *State, env *Env) Val {
	return Val{T: app("cig.len", recv.T), Ty: tInt}
}
func libSeqExpand(x *Exec, n *ast.CallExpr, recv *Val, recvExpr ast.Expr, st *State, env *Env) Val {
	c := x.c
	ssort := c.sortOf(recv.Ty)
	ln := c.structGet(ssort, "Length", recv.T)
	arr := c.freshConst("expanded", "(Array Int "+sortBV8+")")
	ref := x.allocArray(st, sortBV8, arr)
	c.assume(st.pc, app(">=", ln, "0"))
	return Val{T: c.define("sl", sortSlice, app("mkSlice", ref, "0", ln, ln)), Ty: types.NewSlice(tByte)}
}

// biogo sam.Reader: NewReader either fails (nil reader, non-nil error) or yields a reader over a finite ghost sequence of
// records; Read returns the next record or io.EOF, or a parse error; Header() dereferences the reader.
func libSamNewReader(x *Exec, n *ast.CallExpr, recv *Val, recvExpr ast.Expr, st *State, env *Env) Val {
	c := x.c
	for _, a := range n.Args {
		x.eval(a, st, env)
	}
	h := c.freshConst("samreader", "Int")
	e := c.freshConst("samerr", sortErr)
	c.assume("true", and(app(">=", h, "0"), eq(eq(h, "0"), not(eq(e, "err.nil")))))
	rt := env.info.TypeOf(n).(*types.Tuple)
	recTy := x.samRecordType(rt.At(0).Type())
	es := c.sortOf(recTy)
	arr := c.freshConst("samrecs", "(Array Int "+es+")")
	cnt := c.freshConst("samrecs.n", "Int")
	c.assume("true", app(">=", cnt, "0"))
	st.gh["scan:"+h] = Val{Seq: &SeqVal{Arr: arr, N: cnt, Elem: recTy, ESort: es}}
	st.gh["scanpos:"+h] = Val{T: "0", Ty: tInt}
	c.trusted["biogo/hts sam.NewReader/Reader.Read/Header: NewReader fails with a nil reader and non-nil error or succeeds; Read yields a finite sequence of records, then io.EOF, or a parse error"] = true
	return Val{Tuple: []Val{{T: h, Ty: rt.At(0).Type()}, {T: e, Ty: tError}}}
}

// samRecordType finds sam.Record from *sam.Reader's package
func (x *Exec) samRecordType(readerPtr types.Type) types.Type {
	p := readerPtr.(*types.Pointer).Elem().(*types.Named)
	return p.Obj().Pkg().Scope().Lookup("Record").Type()
}

func libSamHeader(x *Exec, n *ast.CallExpr, recv *Val, recvExpr ast.Expr, st *State, env *Env) Val {
	x.safety("nilderef", n, st, not(eq(x.c.resolveAlias(recv.T), "0")), "reader is not nil")
	ht := env.info.TypeOf(n)
	return Val{T: x.c.freshConst("samheader", x.c.sortOf(ht)), Ty: ht}
}

func libSamRead(x *Exec, n *ast.CallExpr, recv *Val, recvExpr ast.Expr, st *State, env *Env) Val {
	c := x.c
	x.safety("nilderef", n, st, not(eq(c.resolveAlias(recv.T), "0")), "reader is not nil")
	h, seq, pos := scannerState(x, recv, st)
	more := c.define("more", "Bool", app("<", pos.T, seq.Seq.N))
	bad := c.freshConst("sambad", "Bool")
	perr := c.freshConst("samerr", sortErr)
	eof := x.pkgVar("io", "EOF", tError)
	c.assume("true", and(not(eq(perr, "err.nil")), not(eq(perr, eof)), not(eq(eof, "err.nil"))))
	st.gh["scanpos:"+h] = Val{T: c.define("scanpos", "Int", ite(and(more, not(bad)), add(pos.T, "1"), pos.T)), Ty: tInt}
	rt := env.info.TypeOf(n).(*types.Tuple)
	rec := Val{T: c.define("rec", seq.Seq.ESort, app("select", seq.Seq.Arr, pos.T)), Ty: rt.At(0).Type()}
	x.assumeWFAtom(st, Val{T: rec.T, Ty: seq.Seq.Elem})
	err := Val{T: c.define("err", sortErr, ite(more, ite(bad, perr, "err.nil"), eof)), Ty: tError}
	return Val{Tuple: []Val{rec, err}}
}

// io.WriteString(w, s): one Write of the string's bytes on w (same adversarial model as Write)
func libWriteString(x *Exec, n *ast.CallExpr, recv *Val, recvExpr ast.Expr, st *State, env *Env) Val {
	c := x.c
	w := x.eval(n.Args[0], st, env)
	sv := x.eval(n.Args[1], st, env)
	nres := c.freshConst("nwritten", "Int")
	e := c.freshConst("werr", sortErr)
	fk := "failed:" + w.T
	cur, ok := st.gh[fk]
	if !ok {
		panic(unsupported("io.WriteString on a writer without ghost state"))
	}
	st.gh[fk] = Val{T: c.define("failed", "Bool", or(cur.T, not(eq(e, "err.nil")))), Ty: tBool}
	if lg, ok := st.gh["written:"+w.T]; ok {
		sq := *lg.Seq
		sq.Arr = c.define("wlog", "(Array Int Str)", app("store", lg.Seq.Arr, lg.Seq.N, sv.T))
		sq.N = c.define("wlog.n", "Int", add(lg.Seq.N, "1"))
		st.gh["written:"+w.T] = Val{Seq: &sq, Ty: lg.Ty}
	}
	c.trusted["io.Writer.Write: returns an arbitrary (n, err); ghost failed(w) set iff err != nil (adversarial writer)"] = true
	return Val{Tuple: []Val{{T: nres, Ty: tInt}, {T: e, Ty: tError}}}
}

// sort.Sort / sort.Stable on a named slice type converted at the call site (sort.Sort(byStart(xs))): the slice's elements
// are permuted; nothing else is written. No ordering facts are assumed (Less is a method of the named type).
func libSortSort(x *Exec, n *ast.CallExpr, recv *Val, recvExpr ast.Expr, st *State, env *Env) Val {
	c := x.c
	s := x.eval(n.Args[0], st, env)
	if s.Ty == nil {
		panic(unsupported("sort.Sort on an untyped value"))
	}
	if _, ok := s.Ty.Underlying().(*types.Slice); !ok {
		panic(unsupported("sort.Sort on a non-slice sort.Interface"))
	}
	et := x.elemType(s.Ty)
	es := c.sortOf(et)
	ref, off, ln, _ := x.sliceParts(s)
	h := x.heap(st, es)
	oldArr := c.define("sortin", "(Array Int "+es+")", app("select", h, ref))
	newArr := c.freshConst("sorted", "(Array Int "+es+")")
	x.noteWrite(st, ref, n.Pos(), x.ord[n])
	st.heaps[es] = c.define("H", c.heapName(es), app("store", h, ref, newArr))
	p := c.freshName("perm")
	q := c.freshName("iperm")
	c.declare(p, fmt.Sprintf("(declare-fun %s (Int) Int)", p))
	c.declare(q, fmt.Sprintf("(declare-fun %s (Int) Int)", q))
	c.assumes = append(c.assumes,
		fmt.Sprintf("(forall ((j Int)) (! (=> (and (<= 0 j) (< j %s)) (and (<= 0 (%s j)) (< (%s j) %s) (= (%s (%s j)) j) (= (select %s (+ %s j)) (select %s (+ %s (%s j)))))) :pattern ((%s j))))", ln, p, p, ln, q, p, newArr, off, oldArr, off, p, p),
		fmt.Sprintf("(forall ((j Int)) (! (=> (and (<= 0 j) (< j %s)) (and (<= 0 (%s j)) (< (%s j) %s) (= (%s (%s j)) j))) :pattern ((%s j))))", ln, q, q, ln, p, q, q),
		fmt.Sprintf("(forall ((j Int)) (! (=> (or (< j %s) (>= j (+ %s %s))) (= (select %s j) (select %s j))) :pattern ((select %s j))))", off, off, ln, newArr, oldArr, newArr))
	c.trusted["sort.Sort/sort.Stable on a slice type: permutation of the input only (no ordering assumed)"] = true
	x.lastPerm = [2]string{p, q}
	x.lastLess = nil
	return Val{}
}

// fmt.Fprint(w, s) / fmt.Fprintln(w, s) with exactly one string operand: one Write of s (plus "\n" for Fprintln) on w.
func libFprintW(x *Exec, n *ast.CallExpr, recv *Val, recvExpr ast.Expr, st *State, env *Env) Val {
	c := x.c
	if len(n.Args) != 2 {
		panic(unsupported("fmt.Fprint/Fprintln with other than one operand"))
	}
	w := x.eval(n.Args[0], st, env)
	sv := x.eval(n.Args[1], st, env)
	if sv.Ty == nil {
		sv = x.materialize(sv, tString)
	}
	if !isString(sv.Ty) {
		panic(unsupported("fmt.Fprint/Fprintln of a non-string operand"))
	}
	txt := sv.T
	if calleeOf(n, env.info).Name() == "Fprintln" {
		txt = app("gs.cat", sv.T, c.strLit("\n"))
	}
	nres := c.freshConst("nwritten", "Int")
	e := c.freshConst("werr", sortErr)
	fk := "failed:" + w.T
	cur, ok := st.gh[fk]
	if !ok {
		panic(unsupported("fmt.Fprint on a writer without ghost state"))
	}
	st.gh[fk] = Val{T: c.define("failed", "Bool", or(cur.T, not(eq(e, "err.nil")))), Ty: tBool}
	if lg, ok := st.gh["written:"+w.T]; ok {
		sq := *lg.Seq
		sq.Arr = c.define("wlog", "(Array Int Str)", app("store", lg.Seq.Arr, lg.Seq.N, txt))
		sq.N = c.define("wlog.n", "Int", add(lg.Seq.N, "1"))
		st.gh["written:"+w.T] = Val{Seq: &sq, Ty: lg.Ty}
	}
	c.trusted["fmt.Fprint/Fprintln(w, s): one Write of s (+ newline) on w; returns an arbitrary (n, err); failed(w) set iff err != nil"] = true
	return Val{Tuple: []Val{{T: nres, Ty: tInt}, {T: e, Ty: tError}}}
}
