package main

import (
	"fmt"
	"go/ast"
	"go/constant"
	"go/token"
	"go/types"
	"regexp"
	"sort"
	"strings"
	"time"
)

// Val is a symbolic value: an SMT term with its Go type. Untyped constants carry C and Ty == nil.
type Val struct {
	T     string
	Ty    types.Type
	C     constant.Value
	Tuple []Val
	Seq   *SeqVal // ghost sequence (channel log, writer log)
	Nil   bool
}

type SeqVal struct {
	Arr   string // (Array Int elemSort)
	N     string // Int
	Elem  types.Type
	ESort string
}

type State struct {
	pc    string
	vars  map[types.Object]Val
	heaps map[string]string
	alloc string
	gh    map[string]Val // ghost variables and ghost logs
}

func (s *State) clone() *State {
	n := &State{pc: s.pc, alloc: s.alloc, vars: make(map[types.Object]Val, len(s.vars)), heaps: make(map[string]string, len(s.heaps)), gh: make(map[string]Val, len(s.gh))}
	for k, v := range s.vars {
		n.vars[k] = v
	}
	for k, v := range s.heaps {
		n.heaps[k] = v
	}
	for k, v := range s.gh {
		n.gh[k] = v
	}
	return n
}

type Flow struct {
	normal, brk, cont, ret *State
}

type Obligation struct {
	Name            string
	TimeoutOverride time.Duration
	Kind            string
	Where           string
	Human           string
	PC              string
	Goal            string
	NAssume         int
	Ctx             *Ctx
	Fn              string
	// results
	Status  string // unsat (discharged) | sat | unknown | timeout | error
	Backend string
	Ms      int64
	Model   string
	Query   string
	Props   []string
	Vacuity bool // expected sat
}

type Env struct {
	info     *types.Info
	names    map[string]Val
	oldNames map[string]Val
	old      *State
	scopePos token.Pos
	contract bool
	pkg      *types.Package
}

func (e *Env) with(name string, v Val) *Env {
	n := *e
	n.names = make(map[string]Val, len(e.names)+1)
	for k, x := range e.names {
		n.names[k] = x
	}
	n.names[name] = v
	return &n
}

// Exec is the symbolic executor for one function.
type Exec struct {
	g               *Global
	c               *Ctx
	fi              *FuncInfo
	con             *Contract
	obligs          []*Obligation
	names           map[string]int
	ord             map[ast.Node]int
	loopOrd         map[ast.Node]int
	anchors         map[ast.Stmt][]string // statement -> anchors contained
	entry           *State
	results         []types.Object // pseudo objects for results
	ghostObj        map[string]types.Type
	modRefs         []string // refs (entry) that may be written, per modifies
	modAll          bool
	alloc0          string
	loopStack       []*loopCtx
	retStates       []*State
	curLoopDepth    int
	baseNames       map[string]Val
	baseFuncs       map[string]Val
	usedContracts   map[string]bool
	lastPerm        [2]string
	anchorCalls     map[string]*ast.CallExpr // anchor (call:Name#k, append#k) -> the call expression
	curCall         *ast.CallExpr            // the call a before/after point is attached to (for arg(i))
	famElem         map[string]types.Type    // spawns mode: element type of each channel family, by element sort
	callResults     map[*ast.CallExpr]Val    // value each executed call returned (for ret() in `after call:` points)
	convNode        ast.Node                 // the conversion expression being evaluated (site of a narrowconv obligation)
	deferVars       map[token.Pos]map[types.Object]Val // entry mode: variable values at each defer statement
	iterStart       map[int]*State           // state at the start of the current iteration of loop N (for pre(N, e))
	lastLess        func(st *State, a, b string) string
	curLoopWritable []string
	inlineMode      bool
	inlineDepth     int
	loopNodes       []ast.Node
	anchorRecs      []anchorRec
	siteRecs        []anchorRec
	scannerHandle   string
	codeEnv         *Env
	curLoopOrd      int
	usedPoints      map[int]bool
	inlineResult    *Val
}

type loopCtx struct {
	allocEntry string
	writesAll  bool
	modRefs    []string
	autoSlices []autoSlice
	autoPaths  []autoPath
	tracked    []trackedSlice
	pairs      [][2]int
}

type trackedSlice struct {
	name    string
	sort    string
	preRef  string
	headRef string
	obj     types.Object
	expr    ast.Expr
}

type autoPath struct {
	expr   ast.Expr
	preRef string
}

type autoSlice struct {
	obj    types.Object
	preRef string
}

func (x *Exec) oblige(kind string, ordinal int, pos token.Pos, st *State, goal string, human string) {
	if strings.Contains(kind, ".auto") {
		// automatic invariants are named after the variables they are about: keep the names those variables had when the
		// lock was written, so that a pure rename does not rename the obligation
		for oldName, obj := range x.g.renameMap(x.fi) {
			kind = regexp.MustCompile(`\b`+regexp.QuoteMeta(obj.Name())+`\b`).ReplaceAllString(kind, oldName)
		}
	}
	name := fmt.Sprintf("%s/%s", x.fi.Key, kind)
	if ordinal > 0 {
		name = fmt.Sprintf("%s/%s#%d", x.fi.Key, kind, ordinal)
	}
	if n, dup := x.names[name]; dup {
		x.names[name] = n + 1
		name = fmt.Sprintf("%s~%d", name, n+1)
	} else {
		x.names[name] = 1
	}
	where := ""
	if pos.IsValid() {
		p := x.g.fset.Position(pos)
		where = fmt.Sprintf("%s:%d", shortPath(p.Filename), p.Line)
	}
	o := &Obligation{Name: name, Kind: kind, Where: where, Human: human, PC: st.pc, Goal: goal, NAssume: len(x.c.assumes), Ctx: x.c, Fn: x.fi.Key}
	if goal == "true" || st.pc == "false" {
		o.Status, o.Backend = "unsat", "syntactic"
	}
	x.obligs = append(x.obligs, o)
}

// smoke records a reachability check: the path condition and all assumptions so far must not be contradictory
// (expected answer: not unsat). A contradictory invariant or precondition would make every later obligation vacuous.
func (x *Exec) smoke(label string, st *State, pos token.Pos) {
	if x.inlineMode || st == nil || st.pc == "false" {
		return
	}
	where := ""
	if pos.IsValid() {
		p := x.g.fset.Position(pos)
		where = fmt.Sprintf("%s:%d", shortPath(p.Filename), p.Line)
	}
	x.obligs = append(x.obligs, &Obligation{Name: x.fi.Key + "/vacuity." + label, Kind: "vacuity", Where: where, PC: st.pc, Goal: "false", NAssume: len(x.c.assumes), Ctx: x.c, Fn: x.fi.Key, Vacuity: true, Human: "reachable: assumptions at this point are satisfiable"})
}

func shortPath(p string) string {
	if i := strings.Index(p, "/pkg/"); i >= 0 {
		return p[i+1:]
	}
	if i := strings.Index(p, "/cmd/"); i >= 0 {
		return p[i+1:]
	}
	return p
}

// merge two states (either may be nil)
func (x *Exec) merge(a, b *State) *State {
	if a == nil {
		return b
	}
	if b == nil {
		return a
	}
	c := x.c
	n := &State{vars: map[types.Object]Val{}, heaps: map[string]string{}, gh: map[string]Val{}}
	n.pc = x.namePC(or(a.pc, b.pc))
	// a package-level variable assigned on one path only keeps its entry value on the other
	isGlobal := func(k types.Object) bool {
		v, ok := k.(*types.Var)
		return ok && v.Pkg() != nil && v.Parent() == v.Pkg().Scope()
	}
	for k := range a.vars {
		if _, ok := b.vars[k]; !ok && isGlobal(k) {
			b = b.clone()
			b.vars[k] = x.objVal(k, b, token.NoPos)
		}
	}
	for k := range b.vars {
		if _, ok := a.vars[k]; !ok && isGlobal(k) {
			a = a.clone()
			a.vars[k] = x.objVal(k, a, token.NoPos)
		}
	}
	for k, va := range a.vars {
		vb, ok := b.vars[k]
		if !ok {
			continue // out of scope on one side
		}
		if va.T == vb.T {
			n.vars[k] = va
			continue
		}
		s := c.sortOf(va.Ty)
		t := c.define(k.Name(), s, ite(a.pc, va.T, vb.T))
		n.vars[k] = Val{T: t, Ty: va.Ty}
	}
	for k, ha := range a.heaps {
		hb, ok := b.heaps[k]
		if !ok {
			hb = "H0_" + sortKey(k)
		}
		if ha == hb {
			n.heaps[k] = ha
		} else {
			n.heaps[k] = c.define("H", c.heapName(k), ite(a.pc, ha, hb))
		}
	}
	for k, hb := range b.heaps {
		if _, ok := a.heaps[k]; !ok {
			h0 := "H0_" + sortKey(k)
			if hb == h0 {
				n.heaps[k] = hb
			} else {
				n.heaps[k] = c.define("H", c.heapName(k), ite(a.pc, h0, hb))
			}
		}
	}
	if a.alloc == b.alloc {
		n.alloc = a.alloc
	} else {
		n.alloc = c.define("alloc", "Int", ite(a.pc, a.alloc, b.alloc))
	}
	keys := map[string]bool{}
	for k := range a.gh {
		keys[k] = true
	}
	for k := range b.gh {
		keys[k] = true
	}
	ks := sortedKeys(keys)
	for _, k := range ks {
		va, oka := a.gh[k]
		vb, okb := b.gh[k]
		if strings.HasPrefix(k, "defer:") && (!oka || !okb) {
			// a defer statement executed on one of the two paths only
			if !oka {
				n.gh[k] = Val{T: x.c.define("deferred", "Bool", and(b.pc, vb.T)), Ty: tBool}
			} else {
				n.gh[k] = Val{T: x.c.define("deferred", "Bool", and(a.pc, va.T)), Ty: tBool}
			}
			continue
		}
		if !oka {
			n.gh[k] = vb
			continue
		}
		if !okb {
			n.gh[k] = va
			continue
		}
		n.gh[k] = x.mergeVal(a.pc, va, vb, k)
	}
	return n
}

func (x *Exec) mergeVal(cond string, va, vb Val, hint string) Val {
	if va.Seq != nil && vb.Seq != nil {
		if va.Seq.Arr == vb.Seq.Arr && va.Seq.N == vb.Seq.N {
			return va
		}
		s := *va.Seq
		s.Arr = x.c.define(hint, "(Array Int "+s.ESort+")", ite(cond, va.Seq.Arr, vb.Seq.Arr))
		s.N = x.c.define(hint+".n", "Int", ite(cond, va.Seq.N, vb.Seq.N))
		return Val{Seq: &s, Ty: va.Ty}
	}
	if va.T == vb.T {
		return va
	}
	if strings.HasPrefix(hint, "famarr:") {
		return Val{T: x.c.define("famarr", "(Array Int (Array Int "+hint[7:]+"))", ite(cond, va.T, vb.T))}
	}
	if strings.HasPrefix(hint, "famrecvn:") {
		return Val{T: x.c.define("famrecvn", "(Array Int Int)", ite(cond, va.T, vb.T))}
	}
	if strings.HasPrefix(hint, "famn:") {
		return Val{T: x.c.define("famn", "(Array Int Int)", ite(cond, va.T, vb.T))}
	}
	return Val{T: x.c.define(hint, x.c.sortOf(va.Ty), ite(cond, va.T, vb.T)), Ty: va.Ty}
}

func (x *Exec) namePC(t string) string {
	if (strings.Count(t, "(") <= 1 && strings.Count(t, " ") <= 3) || x.c.inContract > 0 {
		return t
	}
	n := x.c.freshConst("pc", "Bool")
	x.c.assumes = append(x.c.assumes, "(= "+n+" "+t+")")
	return n
}

func (x *Exec) mergeAll(states ...*State) *State {
	var r *State
	for _, s := range states {
		r = x.merge(r, s)
	}
	return r
}

// heap access
func (x *Exec) heap(st *State, elemSort string) string {
	h, ok := st.heaps[elemSort]
	if !ok {
		// heaps that were never mentioned before are the same initial heap on every path
		name := "H0_" + sortKey(elemSort)
		x.c.declare(name, fmt.Sprintf("(declare-fun %s () %s)", name, x.c.heapName(elemSort)))
		x.c.sorts[name] = x.c.heapName(elemSort)
		// everything reachable when the function starts lives in arrays allocated before it: slices stored in the initial
		// heap (directly, or as fields of stored structs) are well-formed and point below alloc0
		if x.alloc0 != "" {
			el := "(select (select " + name + " r) j)"
			wf := func(f string) string {
				return fmt.Sprintf("(and (<= 0 (s.ref %s)) (< (s.ref %s) %s) (<= 0 (s.off %s)) (<= 0 (s.len %s)) (<= (s.len %s) (s.cap %s)))", f, f, x.alloc0, f, f, f, f)
			}
			var facts []string
			if elemSort == sortSlice {
				facts = append(facts, wf(el))
			} else if si, ok := x.c.structs[elemSort]; ok {
				for i, fs := range si.fsorts {
					if fs == sortSlice {
						facts = append(facts, wf("("+x.c.fieldAcc(elemSort, si.fields[i])+" "+el+")"))
					}
				}
			}
			if len(facts) > 0 {
				x.c.assumes = append(x.c.assumes, fmt.Sprintf("(forall ((r Int) (j Int)) (! %s :pattern (%s)))", and(facts...), el))
			}
		}
		h = name
		st.heaps[elemSort] = h
		if x.entry != nil {
			if _, ok := x.entry.heaps[elemSort]; !ok {
				x.entry.heaps[elemSort] = name
			}
		}
	}
	return h
}

func (x *Exec) sliceParts(v Val) (ref, off, ln, cp string) {
	c := x.c
	return c.accessor("s.ref", v.T), c.accessor("s.off", v.T), c.accessor("s.len", v.T), c.accessor("s.cap", v.T)
}

func (x *Exec) elemType(t types.Type) types.Type {
	switch u := t.Underlying().(type) {
	case *types.Slice:
		return u.Elem()
	case *types.Array:
		return u.Elem()
	case *types.Map:
		return u.Elem()
	case *types.Pointer:
		return x.elemType(u.Elem())
	case *types.Basic:
		if u.Info()&types.IsString != 0 {
			return types.Typ[types.Uint8]
		}
	}
	panic(unsupported("element type of " + t.String()))
}

func (x *Exec) sliceRead(st *State, s Val, idx string) Val {
	et := x.elemType(s.Ty)
	es := x.c.sortOf(et)
	ref, off, _, _ := x.sliceParts(s)
	h := x.heap(st, es)
	v := Val{T: app("select", app("select", h, ref), add(off, idx)), Ty: et}
	x.assumeWF(st, v)
	return v
}

// assumeWF adds the well-formedness facts of a value read from the heap / havoc (slices: bounds and allocation)
func (x *Exec) assumeWF(st *State, v Val) {
	if v.Ty == nil || x.c.inContract > 0 {
		return // inside contract expressions terms may mention bound variables
	}
	switch u := v.Ty.Underlying().(type) {
	case *types.Pointer:
		if _, ok := u.Elem().Underlying().(*types.Struct); ok && x.c.sortOf(v.Ty) == x.c.sortOf(u.Elem()) {
			x.assumeWF(st, Val{T: v.T, Ty: u.Elem()})
		}
	case *types.Slice:
		t := v.T
		if !isAtom(t) {
			return // constructed terms are well-formed by construction
		}
		key := "wf:" + t + ":" + st.alloc
		if x.c.declared[key] {
			return
		}
		x.c.declared[key] = true
		x.c.assume("true", fmt.Sprintf("(and (<= 0 (s.ref %s)) (< (s.ref %s) %s) (<= 0 (s.off %s)) (<= 0 (s.len %s)) (<= (s.len %s) (s.cap %s)) (=> (= (s.ref %s) 0) (= (s.cap %s) 0)))", t, t, st.alloc, t, t, t, t, t, t))
	case *types.Struct:
		if !isAtom(v.T) {
			return
		}
		s := x.c.sortOf(v.Ty)
		si := x.c.structs[s]
		for i, f := range si.fields {
			if _, ok := si.ftypes[i].Underlying().(*types.Slice); ok {
				x.assumeWF(st, Val{T: x.c.define(f, sortSlice, x.c.structGet(s, f, v.T)), Ty: si.ftypes[i]})
			}
			if mt, ok := si.ftypes[i].Underlying().(*types.Map); ok {
				x.assumeWF(st, Val{T: x.c.define(f, x.c.mapSort(mt), x.c.structGet(s, f, v.T)), Ty: si.ftypes[i]})
			}
		}
		_ = u
	case *types.Map:
		if _, isFunc := u.Elem().Underlying().(*types.Signature); isFunc {
			return
		}
		if !isAtom(v.T) {
			return
		}
		ms := x.c.mapSort(u)
		key := "wfmap:" + v.T
		if x.c.declared[key] {
			return
		}
		x.c.declared[key] = true
		x.c.assume("true", fmt.Sprintf("(>= (|%s.size| %s) 0)", ms, v.T))
		// size is the cardinality of the domain: a map with a key is not empty
		x.c.assume("true", fmt.Sprintf("(forall ((k %s)) (! (=> (select (|%s.dom| %s) k) (>= (|%s.size| %s) 1)) :pattern ((select (|%s.dom| %s) k))))", x.c.sortOf(u.Key()), ms, v.T, ms, v.T, ms, v.T))
	}
}

// assumeWFAtom: well-formedness of a value that was read from a map / sequence (named first so that the facts attach to a constant)
func (x *Exec) assumeWFAtom(st *State, v Val) {
	if x.c.inContract > 0 || v.Ty == nil {
		return
	}
	if isSimple(v.T) {
		x.assumeWF(st, v)
	}
}

func isAtom(t string) bool {
	return !strings.HasPrefix(t, "(") || strings.HasPrefix(t, "(select ") || strings.HasPrefix(t, "(|")
}

// recordStore: frame obligation for a write to array `ref`
func (x *Exec) frameCheck(st *State, ref string, pos token.Pos, ordinal int) {
	if x.modAll {
		return
	}
	alts := []string{app(">=", ref, x.alloc0)}
	for _, r := range x.modRefs {
		alts = append(alts, eq(ref, r))
	}
	x.oblige("frame", ordinal, pos, st, or(alts...), "write only to arrays allocated by this call or listed in modifies")
}

func (x *Exec) sliceWrite(st *State, s Val, idx string, v string, pos token.Pos, ordinal int) {
	et := x.elemType(s.Ty)
	es := x.c.sortOf(et)
	ref, off, _, _ := x.sliceParts(s)
	h := x.heap(st, es)
	x.noteWrite(st, ref, pos, ordinal)
	nh := app("store", h, ref, app("store", app("select", h, ref), add(off, idx), v))
	st.heaps[es] = x.c.define("H", x.c.heapName(es), nh)
}

// allocate a fresh array with given contents term
func (x *Exec) allocArray(st *State, elemSort string, contents string) string {
	ref := st.alloc
	if !isSimple(ref) {
		ref = x.c.define("ref", "Int", ref)
	}
	st.alloc = x.c.define("alloc", "Int", add(ref, "1"))
	h := x.heap(st, elemSort)
	st.heaps[elemSort] = x.c.define("H", x.c.heapName(elemSort), app("store", h, ref, contents))
	return ref
}

func isSimple(t string) bool { return !strings.HasPrefix(t, "(") }

func (x *Exec) constArray(elemSort, zero string) string {
	return x.c.constArray("Int", elemSort, zero)
}

// sorted variable objects (deterministic output)
func sortedObjs(m map[types.Object]bool) []types.Object {
	var out []types.Object
	for o := range m {
		out = append(out, o)
	}
	sort.Slice(out, func(i, j int) bool {
		if out[i].Pos() != out[j].Pos() {
			return out[i].Pos() < out[j].Pos()
		}
		return out[i].Name() < out[j].Name()
	})
	return out
}

// noteIterStart records the state at the start of an iteration of loop ord (after the invariants were assumed, before
// the body and its ghost code ran): pre(ord, e) in contract expressions of the body and of nested loops reads it.
func (x *Exec) noteIterStart(ord int, body *State) {
	if x.iterStart == nil {
		x.iterStart = map[int]*State{}
	}
	x.iterStart[ord] = body.clone()
}
