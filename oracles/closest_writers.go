// gfv:dir pkg/closest
//
// Oracle for C19 on the closest writers (from the property statement): if any Write to the output fails, the writer
// returns a non-nil error. The writer fails at its k-th Write call, for every k.
package closest

import (
	"encoding/json"
	"errors"
	"fmt"
	"os"
	"testing"
)

type verifFailW struct{ n, failAt int; failed bool }

func (f *verifFailW) Write(p []byte) (int, error) {
	f.n++
	if f.n == f.failAt {
		f.failed = true
		return 0, errors.New("injected write failure")
	}
	return len(p), nil
}

type verifWIn struct {
	Func     string `json:"func"`
	NResults int    `json:"nresults"`
	NCatch   int    `json:"ncatch"`
	Measure  string `json:"measure"`
	FailAt   int    `json:"failAt"`
}

func verifRunWriter(in verifWIn) (ok bool, detail string) {
	w := &verifFailW{failAt: in.FailAt}
	var err error
	switch in.Func {
	case "writeClosest":
		rs := make([]resultsStruct, in.NResults)
		for i := range rs {
			rs[i] = resultsStruct{qname: fmt.Sprintf("q%d", i), qidx: i, tname: "t", distance: 1, snps: []string{"A1T"}}
		}
		err = writeClosest(rs, in.Measure, w)
	case "writeClosestN", "writeClosestNTable":
		rs := make([]catchmentStruct, in.NResults)
		for i := range rs {
			rs[i] = catchmentStruct{qname: fmt.Sprintf("q%d", i), qidx: i}
			for j := 0; j < in.NCatch; j++ {
				rs[i].catchment = append(rs[i].catchment, resultsStruct{tname: fmt.Sprintf("t%d", j), distance: float64(j)})
			}
		}
		if in.Func == "writeClosestN" {
			err = writeClosestN(rs, w)
		} else {
			err = writeClosestNTable(rs, w, in.Measure)
		}
	default:
		return true, ""
	}
	if w.failed && err == nil {
		return false, fmt.Sprintf("%s: Write call %d of %d failed but the writer returned nil", in.Func, in.FailAt, w.n)
	}
	return true, ""
}

func TestVerifOracle(t *testing.T) {
	report := func(in verifWIn, detail string) {
		b, _ := json.Marshal(map[string]interface{}{"input": in, "detail": detail})
		fmt.Println("GFV-FAIL " + string(b))
	}
	if s := os.Getenv("GFV_INPUT"); s != "" {
		var in verifWIn
		if err := json.Unmarshal([]byte(s), &in); err != nil {
			t.Fatal(err)
		}
		if ok, d := verifRunWriter(in); !ok {
			report(in, d)
		}
		return
	}
	n := 0
	for _, f := range []string{"writeClosest", "writeClosestN", "writeClosestNTable"} {
		for _, m := range []string{"raw", "snp", "tn93"} {
			for nr := 0; nr <= 3; nr++ {
				for nc := 0; nc <= 2; nc++ {
					for k := 1; k <= 2+nr*(nc+1); k++ {
						in := verifWIn{f, nr, nc, m, k}
						n++
						if ok, d := verifRunWriter(in); !ok {
							report(in, d)
							return
						}
					}
				}
			}
		}
	}
	fmt.Printf("GFV-DONE %d (writer, measure, sizes 0..3 x 0..2, every failing Write index)\n", n)
}
