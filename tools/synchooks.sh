#!/bin/bash
# Copies the contract files (/verif/contracts/<pkg>.go, comment-only, //go:build verif) into /repo/pkg/<pkg>/zz_verif_contracts.go
# and commits them in /repo when they changed. The engine insists that both copies are byte-identical.
set -e
changed=0
for f in /verif/contracts/*.go; do
  p=$(basename $f .go)
  dst=/repo/pkg/$p/zz_verif_contracts.go
  if [ "$p" = cmd ]; then dst=/repo/cmd/zz_verif_contracts.go; fi
  if ! cmp -s $f $dst 2>/dev/null; then cp $f $dst; changed=1; fi
done
if [ $changed = 1 ]; then
  cd /repo && git add pkg/*/zz_verif_contracts.go cmd/zz_verif_contracts.go 2>/dev/null; git add pkg/*/zz_verif_contracts.go && git commit -q -m "verif: contract files for gfverify (comment-only, build tag verif)" && git log --oneline | head -1
fi
cd /repo && git log --format=%h --grep='^verif:' | tr '\n' ' '
