//go:build verif

package variants

//@ # C05/C15: offsets between alignment and reference coordinates.
//@ # refToMSA[k] = gap columns left of the k-th reference base; MSAToRef[i] = gap columns left of column i at base
//@ # columns and 0 at gap columns (the shape pinned by TestGetMSAOffsets).
//@ func GetMSAOffsets
//@   ghost bases int = 0
//@   loop 1:
//@     invariant degappedLen == count(k, 0, range_i, refseq[k] != 244)
//@   loop 2:
//@     invariant gapsum == count(k, 0, i, refseq[k] == 244)
//@     invariant bases == count(k, 0, i, refseq[k] != 244)
//@     invariant bases + gapsum == i
//@     invariant len(refToMSA) == count(k, 0, len(refseq), refseq[k] != 244) && len(MSAToRef) == len(refseq)
//@     invariant forall(j, 0, i, implies(refseq[j] != 244, MSAToRef[j] == count(k, 0, j, refseq[k] == 244)))
//@     invariant forall(j, 0, len(refseq), implies(refseq[j] == 244, MSAToRef[j] == 0))
//@     invariant forall(j, 0, i, implies(refseq[j] != 244, refToMSA[count(k, 0, j, refseq[k] != 244)] == count(k, 0, j, refseq[k] == 244)))
//@     invariant disjoint(refToMSA, MSAToRef) && freshslice(refToMSA) && freshslice(MSAToRef)
//@     do-end if refseq[i] != 244 { bases++ }
//@   ensures len(result1) == count(k, 0, len(refseq), refseq[k] != 244)
//@   ensures len(result2) == len(refseq)
//@   ensures forall(j, 0, len(refseq), implies(refseq[j] != 244, result2[j] == count(k, 0, j, refseq[k] == 244)))
//@   ensures forall(j, 0, len(refseq), implies(refseq[j] == 244, result2[j] == 0))
//@   ensures forall(j, 0, len(refseq), implies(refseq[j] != 244, result1[count(k, 0, j, refseq[k] != 244)] == count(k, 0, j, refseq[k] == 244)))

//@ # C05: run-length scan. The ghost variables are the specification's own state machine over the columns seen so far:
//@ # refleft = reference bases to the left; gIns/gDel = a run is open; g*Ref = reference bases left of the run's start;
//@ # g*Len = its length; gEmit = records the specification has emitted.
//@ func getIndelsPair
//@   requires len(query) == len(ref) && len(offsetMSACoord) == len(ref)
//@   requires forall(j, 0, len(ref), implies(ref[j] != 244, offsetMSACoord[j] == count(k, 0, j, ref[k] == 244)))
//@   requires forall(j, 0, len(ref), implies(ref[j] == 244, offsetMSACoord[j] == 0))
//@   ghost refleft int = 0
//@   ghost gapleft int = 0
//@   ghost gIns bool = false
//@   ghost gInsRef int = 0
//@   ghost gInsLen int = 0
//@   ghost gDel bool = false
//@   ghost gDelRef int = 0
//@   ghost gDelLen int = 0
//@   ghost gEmit int = 0
//@   loop 1:
//@     invariant gapleft == count(k, 0, pos, ref[k] == 244) && refleft + gapleft == pos && refleft >= 0
//@     invariant insOpen == gIns && delOpen == gDel
//@     invariant implies(insOpen, insLength == gInsLen && insRefPos == gInsRef)
//@     invariant refBases == refleft
//@     invariant implies(delOpen, 0 <= delStart && delStart < pos && ref[delStart] != 244 && delLength == gDelLen && gDelRef == delStart - count(k, 0, delStart, ref[k] == 244))
//@     invariant len(variants) == gEmit
//@     do-end if ref[pos] == 244 { gapleft++; if query[pos] != 244 { if gIns { gInsLen++ } else { gIns = true; gInsRef = refleft; gInsLen = 1 } } } else { if gIns { gEmit++; gIns = false }; if query[pos] == 244 { if gDel { gDelLen++ } else { gDel = true; gDelRef = refleft; gDelLen = 1 } } else { if gDel { if gDelRef != 0 { gEmit++ }; gDel = false } }; refleft++ }
//@   after append#1: assert [ins.mid] gIns && variants[len(variants)-1].Changetype == "ins" && variants[len(variants)-1].Position == gInsRef && variants[len(variants)-1].Length == gInsLen
//@   after append#2: assert [del] gDel && gDelRef != 0 && variants[len(variants)-1].Changetype == "del" && variants[len(variants)-1].Position == gDelRef + 1 && variants[len(variants)-1].Length == gDelLen
//@   after append#3: assert [ins.end] gIns && variants[len(variants)-1].Changetype == "ins" && variants[len(variants)-1].Position == gInsRef && variants[len(variants)-1].Length == gInsLen
//@   ensures len(result) == ite(gIns, gEmit + 1, gEmit)

//@ spec posOf(k int) int uninterpreted
//@ spec keepPos(p int, start int, end int) bool = (start <= 0 || p >= start) && (end <= 0 || p <= end)
//@ spec fmtVariant(v Variant, appendSNP bool) string = ite(v.Changetype == "del", "del:" + itoa(v.Position) + ":" + itoa(v.Length), ite(v.Changetype == "ins", "ins:" + itoa(v.Position) + ":" + itoa(v.Length), ite(v.Changetype == "nuc", "nuc:" + v.RefAl + itoa(v.Position) + v.QueAl, ite(appendSNP, "aa:" + v.Feature + ":" + v.RefAl + itoa(v.Residue) + v.QueAl + "(" + v.SNPs + ")", "aa:" + v.Feature + ":" + v.RefAl + itoa(v.Residue) + v.QueAl))))
//@ spec validType(v Variant) bool = v.Changetype == "del" || v.Changetype == "ins" || v.Changetype == "nuc" || v.Changetype == "aa"

//@ func FormatVariant
//@   ensures (result2 == nil) == validType(v)
//@   ensures implies(validType(v), result1 == fmtVariant(v, appendSNP))

//@ # C15 (window), C12 (order), C19 (failed writes reported), C15 (stdin: first record missing => indices start at 1).
//@ func WriteVariants
//@   modifies w, cErr, cWriteDone
//@   requires forall(k, ite(firstmissing, 1, 0), ite(firstmissing, 1, 0) + len(recv(cVariants)), 0 <= posOf(k) && posOf(k) < len(recv(cVariants)) && recv(cVariants)[posOf(k)].Idx == k)
//@   requires forall(a, 0, len(recv(cVariants)), ite(firstmissing, 1, 0) <= recv(cVariants)[a].Idx && recv(cVariants)[a].Idx < ite(firstmissing, 1, 0) + len(recv(cVariants)) && posOf(recv(cVariants)[a].Idx) == a)
//@   loop 1:
//@     invariant ite(firstmissing, 1, 0) <= counter && counter <= ite(firstmissing, 1, 0) + len(recv(cVariants)) && !in(outputMap, counter)
//@     invariant forallint(k, in(outputMap, k) == (counter <= k && k < ite(firstmissing, 1, 0) + len(recv(cVariants)) && posOf(k) < range_i))
//@     invariant forall(k, counter, ite(firstmissing, 1, 0) + len(recv(cVariants)), implies(posOf(k) < range_i, outputMap[k] == recv(cVariants)[posOf(k)]))
//@     invariant forall(k, ite(firstmissing, 1, 0), counter, posOf(k) < range_i)
//@     invariant !failed(w) && len(sent(cErr)) == 0 && len(sent(cWriteDone)) == 0
//@   loop 2:
//@     invariant ite(firstmissing, 1, 0) <= counter && counter <= ite(firstmissing, 1, 0) + len(recv(cVariants))
//@     invariant forallint(k, in(outputMap, k) == (counter <= k && k < ite(firstmissing, 1, 0) + len(recv(cVariants)) && posOf(k) < range_i + 1))
//@     invariant forall(k, counter, ite(firstmissing, 1, 0) + len(recv(cVariants)), implies(posOf(k) < range_i + 1, outputMap[k] == recv(cVariants)[posOf(k)]))
//@     invariant forall(k, ite(firstmissing, 1, 0), counter, posOf(k) < range_i + 1)
//@     invariant !failed(w) && len(sent(cErr)) == 0 && len(sent(cWriteDone)) == 0
//@     decreases ite(firstmissing, 1, 0) + len(recv(cVariants)) - counter
//@   loop 3:
//@     invariant !failed(w) && len(sent(cErr)) == 0 && len(sent(cWriteDone)) == 0
//@     invariant len(sa) == count(k, 0, range_i, keepPos(VL.Vs[k].Position, start, end))
//@     invariant forall(j, 0, range_i, validType(VL.Vs[j]) || !keepPos(VL.Vs[j].Position, start, end))
//@     invariant forall(j, 0, range_i, implies(keepPos(VL.Vs[j].Position, start, end), sa[count(k, 0, j, keepPos(VL.Vs[k].Position, start, end))] == fmtVariant(VL.Vs[j], appendSNP)))
//@   before call:Write#2: assert [order] VL == recv(cVariants)[posOf(counter)] && VL.Queryname != refID
//@   before call:Write#3: assert [window.len] len(sa) == count(k, 0, len(VL.Vs), keepPos(VL.Vs[k].Position, start, end))
//@   before call:Write#3: assert [window.content] forall(j, 0, len(VL.Vs), implies(keepPos(VL.Vs[j].Position, start, end), sa[count(k, 0, j, keepPos(VL.Vs[k].Position, start, end))] == fmtVariant(VL.Vs[j], appendSNP)))
//@   after call:Write#3: assert [row] written(w)[len(written(w))-2] == VL.Queryname + "," && written(w)[len(written(w))-1] == join(sa, "|") + "\n"
//@   ensures [c19.reported] implies(failed(w), len(sent(cErr)) >= 1 && len(sent(cWriteDone)) == 0)
//@   ensures [c12.done] implies(!failed(w) && len(sent(cErr)) == 0, len(sent(cWriteDone)) == 1)

//@ # C19 for the aggregate writer: every failed Write is reported on cErr and the done signal is withheld.
//@ func AggregateWriteVariants
//@   modifies w, cErr, cWriteDone
//@   loop 1:
//@     invariant !failed(w) && len(sent(cErr)) == 0 && len(sent(cWriteDone)) == 0 && len(written(w)) == 1
//@   loop 2:
//@     invariant !failed(w) && len(sent(cErr)) == 0 && len(sent(cWriteDone)) == 0 && len(written(w)) == 1
//@   loop 3:
//@     invariant !failed(w) && len(sent(cErr)) == 0 && len(sent(cWriteDone)) == 0 && len(written(w)) == 1
//@   loop 4:
//@     invariant !failed(w) && len(sent(cErr)) == 0 && len(sent(cWriteDone)) == 0
//@   ensures [c19.reported] implies(failed(w), len(sent(cErr)) >= 1 && len(sent(cWriteDone)) == 0)
//@   ensures [c12.done] implies(!failed(w) && len(sent(cErr)) == 0, len(sent(cWriteDone)) == 1)

//@ # C16: fifth copy of the scanner loop – safety sweep (no panic on any line sequence)
//@ func findReference
