// gfv:dir pkg/sam
//
// Bounded check for C02 (from the property statement and the SAM specification): for one query's records,
// `sam toPairAlign` yields a reference row and a query row of equal length; removing '-' from the reference row gives
// the reference; the reference row has '-' exactly in the columns of the query's insertions; the query row carries every
// aligned and inserted base in order, '-' for deleted reference positions, 'N' for positions no record covers.
// With insertions omitted the query row is that row without the reference-gap columns.
// Runs the REAL blockToPairwiseAlignment (getOneLinePlusRef + blockToSeqPair + flattening).
package sam

import (
	"encoding/json"
	"fmt"
	"os"
	"strings"
	"testing"

	biogosam "github.com/biogo/hts/sam"
)

type verifPOp struct {
	T string `json:"t"`
	N int    `json:"n"`
}
type verifPRec struct {
	Pos int        `json:"pos"`
	Ops []verifPOp `json:"ops"`
	Seq string     `json:"seq"`
}
type verifTopaIn struct {
	Ref  string      `json:"ref"`
	Recs []verifPRec `json:"recs"`
}

var verifPOpType = map[string]biogosam.CigarOpType{"M": biogosam.CigarMatch, "I": biogosam.CigarInsertion, "D": biogosam.CigarDeletion, "S": biogosam.CigarSoftClipped, "H": biogosam.CigarHardClipped}

// expected rows; ok=false when the records conflict or are malformed (out of scope)
func verifTopaSpec(in verifTopaIn) (R, Q string, ok bool) {
	L := len(in.Ref)
	col := make([]byte, L)
	ins := map[int]string{}
	for _, rec := range in.Recs {
		q, r := 0, rec.Pos
		for _, op := range rec.Ops {
			switch op.T {
			case "M":
				for j := 0; j < op.N; j++ {
					if r >= L || q >= len(rec.Seq) {
						return "", "", false
					}
					if col[r] != 0 && col[r] != rec.Seq[q] {
						return "", "", false
					}
					col[r] = rec.Seq[q]
					r++
					q++
				}
			case "D":
				for j := 0; j < op.N; j++ {
					if r >= L {
						return "", "", false
					}
					if col[r] != 0 && col[r] != '-' {
						return "", "", false
					}
					col[r] = '-'
					r++
				}
			case "I":
				if q+op.N > len(rec.Seq) || r >= L {
					return "", "", false
				}
				if _, dup := ins[r]; dup {
					return "", "", false // the same insertion point in two records: out of scope
				}
				ins[r] = rec.Seq[q : q+op.N]
				q += op.N
			case "S":
				q += op.N
			case "H":
			}
		}
		if q != len(rec.Seq) {
			return "", "", false
		}
	}
	var rb, qb strings.Builder
	for i := 0; i < L; i++ {
		if s, ok := ins[i]; ok {
			rb.WriteString(strings.Repeat("-", len(s)))
			qb.WriteString(s)
		}
		rb.WriteByte(in.Ref[i])
		if col[i] == 0 {
			qb.WriteByte('N')
		} else {
			qb.WriteByte(col[i])
		}
	}
	return rb.String(), qb.String(), true
}

func verifTopaRun(in verifTopaIn, omitIns bool) (alignPair, error) {
	ref := biogosam.Reference{}
	rp, _ := biogosam.NewReference("ref", "", "", len(in.Ref), nil, nil)
	if rp != nil {
		ref = *rp
	}
	var recs []biogosam.Record
	for _, r := range in.Recs {
		var cig biogosam.Cigar
		for _, op := range r.Ops {
			cig = append(cig, biogosam.NewCigarOp(verifPOpType[op.T], op.N))
		}
		rr := ref
		recs = append(recs, biogosam.Record{Name: "q", Ref: &rr, Pos: r.Pos, Cigar: cig, Seq: biogosam.NewSeq([]byte(r.Seq))})
	}
	cSR := make(chan samRecords, 1)
	cPair := make(chan alignPair, 1)
	cErr := make(chan error, 4)
	cSR <- samRecords{records: recs, idx: 0}
	close(cSR)
	blockToPairwiseAlignment(cSR, cPair, cErr, []byte(in.Ref), omitIns)
	select {
	case e := <-cErr:
		return alignPair{}, e
	default:
	}
	return <-cPair, nil
}

func verifTopaCheck(in verifTopaIn) (ok bool, detail string) {
	R, Q, valid := verifTopaSpec(in)
	if !valid {
		return true, ""
	}
	defer func() {
		if r := recover(); r != nil {
			ok, detail = false, fmt.Sprintf("panic: %v", r)
		}
	}()
	p, err := verifTopaRun(in, false)
	if err != nil {
		return false, "refused: " + err.Error()
	}
	if string(p.ref) != R || string(p.query) != Q {
		return false, fmt.Sprintf("rows are ref=%q query=%q, expected ref=%q query=%q", p.ref, p.query, R, Q)
	}
	// insertions omitted: the query row without the reference-gap columns, the reference itself
	var q2 strings.Builder
	for i := range R {
		if R[i] != '-' {
			q2.WriteByte(Q[i])
		}
	}
	p2, err := verifTopaRun(in, true)
	if err != nil {
		return false, "refused with insertions omitted: " + err.Error()
	}
	if string(p2.ref) != in.Ref || string(p2.query) != q2.String() {
		return false, fmt.Sprintf("insertions omitted: rows are ref=%q query=%q, expected ref=%q query=%q", p2.ref, p2.query, in.Ref, q2.String())
	}
	return true, ""
}

func TestVerifOracle(t *testing.T) {
	report := func(in verifTopaIn, detail string) {
		b, _ := json.Marshal(map[string]interface{}{"input": in, "detail": detail})
		fmt.Println("GFV-FAIL " + string(b))
	}
	if s := os.Getenv("GFV_INPUT"); s != "" {
		var in verifTopaIn
		if err := json.Unmarshal([]byte(s), &in); err != nil {
			t.Fatal(err)
		}
		if ok, d := verifTopaCheck(in); !ok {
			report(in, d)
		}
		return
	}
	ref := "ACGTTGCAAC"
	L := len(ref)
	n, valid := 0, 0
	// a record aligning ref[a:b) with optionally one insertion (length il before reference position ip) and one deletion
	// (length dl at reference position dp), soft-clipped by sl / sr
	mk := func(a, b, ip, il, dp, dl, sl, sr int) (verifPRec, bool) {
		if a >= b {
			return verifPRec{}, false
		}
		var ops []verifPOp
		var seq strings.Builder
		add := func(t string, k int) {
			if k <= 0 {
				return
			}
			if len(ops) > 0 && ops[len(ops)-1].T == t {
				ops[len(ops)-1].N += k
				return
			}
			ops = append(ops, verifPOp{t, k})
		}
		add("S", sl)
		seq.WriteString(strings.Repeat("t", sl))
		for i := a; i < b; i++ {
			if il > 0 && i == ip {
				if i == a {
					return verifPRec{}, false // an insertion needs an aligned base before it
				}
				add("I", il)
				seq.WriteString(strings.Repeat("G", il))
			}
			if dl > 0 && i >= dp && i < dp+dl {
				if i == a || dp+dl >= b {
					return verifPRec{}, false
				}
				add("D", 1)
				continue
			}
			add("M", 1)
			seq.WriteByte(ref[i])
		}
		add("S", sr)
		seq.WriteString(strings.Repeat("t", sr))
		return verifPRec{Pos: a, Ops: ops, Seq: seq.String()}, true
	}
	try := func(in verifTopaIn) bool {
		n++
		if _, _, v := verifTopaSpec(in); v {
			valid++
		}
		if ok, d := verifTopaCheck(in); !ok {
			report(in, d)
			return false
		}
		return true
	}
	// single records
	for a := 0; a < 3; a++ {
		for b := L - 2; b <= L; b++ {
			for ip := -1; ip < L; ip++ {
				for il := 0; il <= 2; il++ {
					if (ip < 0) != (il == 0) {
						continue
					}
					for dp := -1; dp < L; dp += 2 {
						for dl := 0; dl <= 2; dl++ {
							if (dp < 0) != (dl == 0) {
								continue
							}
							if r, ok := mk(a, b, ip, il, dp, dl, a%2, b%2); ok {
								if !try(verifTopaIn{ref, []verifPRec{r}}) {
									return
								}
							}
						}
					}
				}
			}
		}
	}
	// two records: disjoint, abutting or overlapping (consistent) reference intervals, each with an optional insertion
	for a1 := 0; a1 < 2; a1++ {
		for b1 := 3; b1 <= 7; b1++ {
			for a2 := 2; a2 <= 7; a2++ {
				for b2 := a2 + 2; b2 <= L; b2 += 1 {
					for ip1 := -1; ip1 < b1; ip1++ {
						for ip2 := -1; ip2 < b2; ip2++ {
							if ip2 >= 0 && ip2 <= a2 {
								continue
							}
							il1, il2 := 0, 0
							if ip1 >= 0 {
								il1 = 2
							}
							if ip2 >= 0 {
								il2 = 1
							}
							r1, ok1 := mk(a1, b1, ip1, il1, -1, 0, 0, b2-a2)
							r2, ok2 := mk(a2, b2, ip2, il2, -1, 0, b1-a1, 0)
							if ok1 && ok2 {
								if !try(verifTopaIn{ref, []verifPRec{r1, r2}}) {
									return
								}
							}
						}
					}
				}
			}
		}
	}
	fmt.Printf("GFV-DONE %d (%d in scope: 10-base reference; single records with <=1 insertion (1..2) and <=1 deletion (1..2), soft clips; pairs of records on disjoint, abutting or consistently overlapping intervals with <=1 insertion each)\n", n, valid)
}
