// gfv:dir pkg/variants
//
// Oracle for C12/C13 (from the property statements): the --aggregate table is a deterministic function of the
// per-sequence results: identical bytes on every run whatever order the counting map is iterated in; rows ordered by
// genomic position; each distinct mutation once, with frequency = (sequences containing it)/(sequences, the reference
// excluded) to 9 decimals; only rows with frequency >= threshold.
package variants

import (
	"bytes"
	"encoding/json"
	"fmt"
	"os"
	"strconv"
	"strings"
	"testing"
)

type verifAggV struct {
	Type string `json:"type"` // nuc, del, ins
	Pos  int    `json:"pos"`
	Len  int    `json:"len"`
	Ref  string `json:"ref"`
	Alt  string `json:"alt"`
}

type verifAggIn struct {
	Seqs      [][]verifAggV `json:"seqs"`
	Threshold float64       `json:"threshold"`
}

func verifAggRun(in verifAggIn) (string, error) {
	cV := make(chan AnnoStructs, len(in.Seqs)+1)
	cD := make(chan bool, 1)
	cE := make(chan error, 4)
	cV <- AnnoStructs{Queryname: "ref"}
	for i, s := range in.Seqs {
		as := AnnoStructs{Queryname: fmt.Sprintf("q%d", i)}
		for _, v := range s {
			as.Vs = append(as.Vs, Variant{Changetype: v.Type, Position: v.Pos, Length: v.Len, RefAl: v.Ref, QueAl: v.Alt})
		}
		cV <- as
	}
	close(cV)
	var b bytes.Buffer
	AggregateWriteVariants(&b, -1, -1, false, in.Threshold, "ref", cV, cD, cE)
	select {
	case err := <-cE:
		return "", err
	default:
	}
	return b.String(), nil
}

func verifAggCheck(in verifAggIn) (bool, string) {
	first, err := verifAggRun(in)
	if err != nil {
		return true, ""
	}
	for r := 0; r < 40; r++ {
		out, _ := verifAggRun(in)
		if out != first {
			return false, fmt.Sprintf("two runs on the same per-sequence results wrote different tables: %q vs %q", first, out)
		}
	}
	// content: each distinct mutation once with the documented frequency, threshold respected, ordered by position
	count := map[string]int{}
	pos := map[string]int{}
	for _, s := range in.Seqs {
		seen := map[string]bool{}
		for _, v := range s {
			rep, err := FormatVariant(Variant{Changetype: v.Type, Position: v.Pos, Length: v.Len, RefAl: v.Ref, QueAl: v.Alt}, false)
			if err != nil {
				return true, ""
			}
			if !seen[rep] {
				seen[rep] = true
				count[rep]++
				pos[rep] = v.Pos
			}
		}
	}
	lines := strings.Split(strings.TrimSuffix(first, "\n"), "\n")
	if lines[0] != "mutation,frequency" {
		return false, "missing header: " + first
	}
	got := map[string]string{}
	last := -1
	for _, ln := range lines[1:] {
		f := strings.Split(ln, ",")
		if len(f) != 2 {
			return false, "malformed row " + ln
		}
		if _, dup := got[f[0]]; dup {
			return false, "mutation " + f[0] + " listed twice"
		}
		got[f[0]] = f[1]
		if pos[f[0]] < last {
			return false, "rows are not ordered by genomic position: " + first
		}
		last = pos[f[0]]
	}
	for rep, c := range count {
		fr := float64(c) / float64(len(in.Seqs))
		want := strconv.FormatFloat(fr, 'f', 9, 64)
		if fr >= in.Threshold {
			if got[rep] != want {
				return false, fmt.Sprintf("mutation %s is in %d of %d sequences: expected frequency %s, table has %q", rep, c, len(in.Seqs), want, got[rep])
			}
		} else if _, ok := got[rep]; ok {
			return false, fmt.Sprintf("mutation %s has frequency %s < threshold %v but is listed", rep, want, in.Threshold)
		}
	}
	for rep := range got {
		if _, ok := count[rep]; !ok {
			return false, "row for a mutation no sequence has: " + rep
		}
	}
	return true, ""
}

func TestVerifOracle(t *testing.T) {
	report := func(in verifAggIn, detail string) {
		b, _ := json.Marshal(map[string]interface{}{"input": in, "detail": detail})
		fmt.Println("GFV-FAIL " + string(b))
	}
	if s := os.Getenv("GFV_INPUT"); s != "" {
		var in verifAggIn
		if err := json.Unmarshal([]byte(s), &in); err != nil {
			t.Fatal(err)
		}
		if ok, d := verifAggCheck(in); !ok {
			report(in, d)
		}
		return
	}
	pool := []verifAggV{
		{"nuc", 10, 0, "A", "C"}, {"nuc", 10, 0, "A", "G"}, {"nuc", 10, 0, "A", "T"}, {"nuc", 5, 0, "G", "T"},
		{"del", 10, 3, "", ""}, {"del", 10, 6, "", ""}, {"del", 10, 9, "", ""}, {"ins", 10, 1, "", ""}, {"ins", 10, 2, "", ""}, {"del", 20, 1, "", ""},
	}
	n := 0
	// every sequence carries one or two of the pool's mutations; 2..3 sequences
	var singles [][]verifAggV
	for i := range pool {
		singles = append(singles, []verifAggV{pool[i]})
		for j := i + 1; j < len(pool); j++ {
			if pool[i].Pos != pool[j].Pos || pool[i].Type != pool[j].Type {
				singles = append(singles, []verifAggV{pool[i], pool[j]})
			}
		}
	}
	for _, th := range []float64{0, 0.5} {
		for a := 0; a < len(singles); a++ {
			for b := a; b < len(singles); b++ {
				in := verifAggIn{[][]verifAggV{singles[a], singles[b]}, th}
				n++
				if ok, d := verifAggCheck(in); !ok {
					report(in, d)
					return
				}
			}
		}
	}
	for a := 0; a < len(pool); a++ {
		for b := a + 1; b < len(pool); b++ {
			for c := b + 1; c < len(pool); c++ {
				in := verifAggIn{[][]verifAggV{{pool[a]}, {pool[b]}, {pool[c]}}, 0}
				n++
				if ok, d := verifAggCheck(in); !ok {
					report(in, d)
					return
				}
			}
		}
	}
	fmt.Printf("GFV-DONE %d (2..3 sequences carrying 1..2 of 10 nuc/del/ins mutations incl. ties on position and type; thresholds 0 and 0.5; 41 runs each)\n", n)
}
