// gfv:dir pkg/variants
//
// Oracle for C15 (mutation window), from the property statement: --start s and --end e, alone or together, keep
// exactly the mutations whose position p satisfies s <= p (when s is given) and p <= e (when e is given). A bound that
// is not given arrives as -1. Both the per-sequence and the aggregate writer are exercised.
package variants

import (
	"bytes"
	"encoding/json"
	"fmt"
	"os"
	"strings"
	"testing"
	"time"
)

type verifWinIn struct {
	Start     int   `json:"start"`
	End       int   `json:"end"`
	Positions []int `json:"positions"`
	Aggregate bool  `json:"aggregate"`
}

func verifRunWindow(in verifWinIn) (bool, string) {
	var vs []Variant
	for _, p := range in.Positions {
		vs = append(vs, Variant{Changetype: "nuc", RefAl: "A", QueAl: "T", Position: p})
	}
	ch := make(chan AnnoStructs)
	done := make(chan bool, 1)
	errc := make(chan error, 4)
	var buf bytes.Buffer
	if in.Aggregate {
		go AggregateWriteVariants(&buf, in.Start, in.End, false, 0.0, "ref", ch, done, errc)
	} else {
		go WriteVariants(&buf, in.Start, in.End, false, false, "ref", ch, done, errc)
	}
	ch <- AnnoStructs{Queryname: "q", Vs: vs, Idx: 0}
	close(ch)
	select {
	case <-done:
	case err := <-errc:
		return false, "unexpected error: " + err.Error()
	case <-time.After(5 * time.Second):
		return false, "writer did not finish"
	}
	var want []string
	for _, p := range in.Positions {
		if (in.Start <= 0 || p >= in.Start) && (in.End <= 0 || p <= in.End) {
			want = append(want, fmt.Sprintf("nuc:A%dT", p))
		}
	}
	lines := strings.Split(strings.TrimRight(buf.String(), "\n"), "\n")
	var got []string
	if in.Aggregate {
		for _, l := range lines[1:] {
			if l != "" {
				got = append(got, strings.Split(l, ",")[0])
			}
		}
	} else if len(lines) >= 2 {
		f := strings.SplitN(lines[1], ",", 2)
		if len(f) == 2 && f[1] != "" {
			got = strings.Split(f[1], "|")
		}
	}
	if fmt.Sprint(got) != fmt.Sprint(want) {
		return false, fmt.Sprintf("start=%d end=%d aggregate=%v positions=%v: wrote %v, the window keeps %v", in.Start, in.End, in.Aggregate, in.Positions, got, want)
	}
	return true, ""
}

func TestVerifOracle(t *testing.T) {
	report := func(in verifWinIn, detail string) {
		b, _ := json.Marshal(map[string]interface{}{"input": in, "detail": detail})
		fmt.Println("GFV-FAIL " + string(b))
	}
	if s := os.Getenv("GFV_INPUT"); s != "" {
		var in verifWinIn
		if err := json.Unmarshal([]byte(s), &in); err != nil {
			t.Fatal(err)
		}
		if ok, d := verifRunWindow(in); !ok {
			report(in, d)
		}
		return
	}
	n := 0
	for _, agg := range []bool{false, true} {
		for s := -1; s <= 5; s++ {
			for e := -1; e <= 5; e++ {
				if s == 0 || e == 0 {
					continue
				}
				for mask := 0; mask < 16; mask++ {
					var ps []int
					for b := 0; b < 4; b++ {
						if mask&(1<<b) != 0 {
							ps = append(ps, b+1)
						}
					}
					in := verifWinIn{s, e, ps, agg}
					n++
					if ok, d := verifRunWindow(in); !ok {
						report(in, d)
						return
					}
				}
			}
		}
	}
	fmt.Printf("GFV-DONE %d (start,end in {-1,1..5}, every subset of positions 1..4, both writers)\n", n)
}
