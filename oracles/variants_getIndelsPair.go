// gfv:dir pkg/variants
//
// Oracle for C05 (written from the property statement): ins:P:L = L query bases inserted immediately after
// reference base P (P = reference bases to the left); del:P:L = reference bases P..P+L-1 absent from the query;
// one record per maximal run; deletions including the first or last reference base are not reported; columns that
// are gaps in both rows never matter.
package variants

import (
	"encoding/json"
	"fmt"
	"math/rand"
	"os"
	"sort"
	"strconv"
	"testing"
	"time"
)

type verifIndelInput struct {
	Ref   string `json:"ref"`   // 'A' = base, '-' = gap
	Query string `json:"query"` // same
}

func verifEnc(s string) []byte {
	b := make([]byte, len(s))
	for i := range s {
		switch s[i] {
		case '-':
			b[i] = 244
		case 'A':
			b[i] = 136
		case 'C':
			b[i] = 40
		case 'G':
			b[i] = 72
		default:
			b[i] = 24
		}
	}
	return b
}

func verifExpectedIndels(ref, query []byte) []string {
	var out []string
	nref := 0
	for _, r := range ref {
		if r != 244 {
			nref++
		}
	}
	refleft := 0
	insOpen, insRef, insLen := false, 0, 0
	delOpen, delRef, delLen := false, 0, 0
	for i := range ref {
		r := ref[i] != 244
		q := query[i] != 244
		if !r && !q {
			continue
		}
		if !r {
			if !insOpen {
				insOpen, insRef, insLen = true, refleft, 0
			}
			insLen++
			continue
		}
		if insOpen {
			out = append(out, fmt.Sprintf("ins:%d:%d", insRef, insLen))
			insOpen = false
		}
		if !q {
			if !delOpen {
				delOpen, delRef, delLen = true, refleft+1, 0
			}
			delLen++
		} else if delOpen {
			if delRef != 1 {
				out = append(out, fmt.Sprintf("del:%d:%d", delRef, delLen))
			}
			delOpen = false
		}
		refleft++
	}
	if insOpen {
		out = append(out, fmt.Sprintf("ins:%d:%d", insRef, insLen))
	}
	// a deletion still open at the end includes the last reference base: not reported
	sort.Strings(out)
	return out
}

func verifCheckIndels(in verifIndelInput) (bool, string) {
	ref := verifEnc(in.Ref)
	query := verifEnc(in.Query)
	if len(ref) != len(query) {
		return true, ""
	}
	detail := ""
	ok := func() (ok bool) {
		defer func() {
			if r := recover(); r != nil {
				detail = fmt.Sprintf("panic: %v", r)
				ok = false
			}
		}()
		r2m, m2r := GetMSAOffsets(ref)
		got := getIndelsPair(ref, query, r2m, m2r)
		var gs []string
		for _, v := range got {
			gs = append(gs, v.Changetype+":"+strconv.Itoa(v.Position)+":"+strconv.Itoa(v.Length))
		}
		sort.Strings(gs)
		want := verifExpectedIndels(ref, query)
		if fmt.Sprint(gs) != fmt.Sprint(want) {
			detail = fmt.Sprintf("getIndelsPair(ref=%q, query=%q) = %v, property requires %v", in.Ref, in.Query, gs, want)
			return false
		}
		return true
	}()
	return ok, detail
}

func TestVerifOracle(t *testing.T) {
	report := func(in verifIndelInput, detail string) {
		b, _ := json.Marshal(map[string]interface{}{"input": in, "detail": detail})
		fmt.Println("GFV-FAIL " + string(b))
	}
	if s := os.Getenv("GFV_INPUT"); s != "" {
		var in verifIndelInput
		if err := json.Unmarshal([]byte(s), &in); err != nil {
			t.Fatal(err)
		}
		if ok, d := verifCheckIndels(in); !ok {
			report(in, d)
		}
		return
	}
	budget, _ := strconv.Atoi(os.Getenv("GFV_BUDGET_MS"))
	if budget == 0 {
		budget = 5000
	}
	deadline := time.Now().Add(time.Duration(budget) * time.Millisecond)
	n := 0
	sym := []byte{'A', '-'}
	for L := 1; L <= 8; L++ {
		total := 1
		for i := 0; i < 2*L; i++ {
			total *= 2
		}
		for code := 0; code < total; code++ {
			r := make([]byte, L)
			q := make([]byte, L)
			c := code
			for i := 0; i < L; i++ {
				r[i] = sym[c&1]
				c >>= 1
				q[i] = sym[c&1]
				c >>= 1
			}
			in := verifIndelInput{string(r), string(q)}
			n++
			if ok, d := verifCheckIndels(in); !ok {
				report(in, d)
				return
			}
		}
		if time.Now().After(deadline) {
			break
		}
	}
	seed, _ := strconv.ParseInt(os.Getenv("VERIF_SEED"), 10, 64)
	rng := rand.New(rand.NewSource(seed))
	for time.Now().Before(deadline) {
		L := 9 + rng.Intn(24)
		r := make([]byte, L)
		q := make([]byte, L)
		for i := range r {
			r[i] = sym[boolInt(rng.Intn(4) == 0)]
			q[i] = sym[boolInt(rng.Intn(4) == 0)]
		}
		in := verifIndelInput{string(r), string(q)}
		n++
		if ok, d := verifCheckIndels(in); !ok {
			report(in, d)
			return
		}
	}
	fmt.Printf("GFV-DONE %d inputs (all row pairs over {base,gap} up to width 8, then seeded random up to width 32)\n", n)
}

func boolInt(b bool) int {
	if b {
		return 1
	}
	return 0
}
