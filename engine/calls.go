package main

import (
	"fmt"
	"go/ast"
	"go/constant"
	"go/token"
	"go/types"
	"regexp"
	"strconv"
	"strings"
)

func (x *Exec) evalCall(n *ast.CallExpr, st *State, env *Env) Val {
	v := x.evalCall0(n, st, env)
	if x.c.inContract == 0 {
		if x.callResults == nil {
			x.callResults = map[*ast.CallExpr]Val{}
		}
		x.callResults[n] = v
	}
	return v
}

func (x *Exec) evalCall0(n *ast.CallExpr, st *State, env *Env) Val {
	// conversions and builtins
	if env.info != nil {
		if tv, ok := env.info.Types[n.Fun]; ok && tv.IsType() {
			av := x.eval(n.Args[0], st, env)
			x.convNode = n
			cv := x.convert(tv.Type, av, st)
			x.convNode = nil
			return cv
		}
	}
	switch f := n.Fun.(type) {
	case *ast.Ident:
		isBuiltin := env.info == nil
		if env.info != nil {
			_, isBuiltin = env.info.Uses[f].(*types.Builtin)
		}
		if isBuiltin {
			if v, ok := x.evalBuiltin(f.Name, n, st, env); ok {
				return v
			}
		}
		if env.info == nil {
			if v, ok := x.evalPseudo(f.Name, n, st, env); ok {
				return v
			}
		}
	case *ast.ArrayType:
		if env.info == nil {
			return x.convert(x.resolveTypeExpr(f, env), x.eval(n.Args[0], st, env), st)
		}
	case *ast.ParenExpr:
	}
	if env.info == nil {
		// contract mode: nullary repository functions are evaluated by symbolic execution of their bodies
		if fi := x.contractCallee(n.Fun, env); fi != nil && len(n.Args) == 0 && fi.Sig.Params().Len() == 0 {
			return x.inlineCall(fi, st)
		}
		panic(unsupported("call in contract expression: " + exprString(n.Fun)))
	}
	return x.evalRealCall(n, st, env)
}

func (x *Exec) contractCallee(fun ast.Expr, env *Env) *FuncInfo {
	switch f := fun.(type) {
	case *ast.Ident:
		if fi, ok := x.g.funcs[env.specPkgName(x)+"."+f.Name]; ok {
			return fi
		}
	case *ast.SelectorExpr:
		if id, ok := f.X.(*ast.Ident); ok {
			if fi, ok := x.g.funcs[id.Name+"."+f.Sel.Name]; ok {
				return fi
			}
		}
	}
	return nil
}

// inlineCall symbolically executes a parameterless, loop-annotated pure function and returns its result value.
// Obligations arising inside are dropped here: they are checked when the function itself is verified.
func (x *Exec) inlineCall(fi *FuncInfo, st *State) Val {
	if v, ok := x.c.inlineCache[fi.Key]; ok {
		return v
	}
	sub := &Exec{g: x.g, c: x.c, fi: fi, con: x.g.cs.Funcs[fi.Key], names: map[string]int{}, ord: map[ast.Node]int{}, loopOrd: map[ast.Node]int{}, anchors: map[ast.Stmt][]string{}, usedContracts: x.usedContracts}
	sub.prepass()
	sub.inlineMode = true
	saved := x.c.inContract
	x.c.inContract = 0
	sub.run()
	x.c.inContract = saved
	if sub.inlineResult == nil {
		panic(unsupported("inlined function " + fi.Key + " has no result"))
	}
	x.usedContracts[fi.Key] = true
	x.c.inlineCache[fi.Key] = *sub.inlineResult
	return *sub.inlineResult
}

func exprString(e ast.Expr) string {
	switch n := e.(type) {
	case *ast.Ident:
		return n.Name
	case *ast.SelectorExpr:
		return exprString(n.X) + "." + n.Sel.Name
	case *ast.IndexExpr:
		return exprString(n.X) + "[" + exprString(n.Index) + "]"
	case *ast.CallExpr:
		return exprString(n.Fun) + "(…)"
	case *ast.BasicLit:
		return n.Value
	case *ast.StarExpr:
		return "*" + exprString(n.X)
	case *ast.ParenExpr:
		return "(" + exprString(n.X) + ")"
	}
	return fmt.Sprintf("%T", e)
}

func (x *Exec) convert(to types.Type, v Val, st *State) Val {
	if v.Ty == nil {
		if v.Nil {
			return Val{T: x.c.zero(to), Ty: to}
		}
		if isString(to) && v.C.Kind() == constant.Int {
			n, _ := constant.Int64Val(v.C)
			return Val{T: x.c.strLit(string(rune(n))), Ty: to}
		}
		return x.materialize(v, to)
	}
	from := v.Ty
	if lo, hi, ok := narrowRange(to); ok && isInt(from) && x.c.inContract == 0 && x.convNode != nil {
		x.safety("narrowconv", x.convNode, st, and(app("<=", lo, v.T), app("<=", v.T, hi)), "conversion to "+to.String()+" does not truncate")
	}
	switch {
	case isByte(to) && isByte(from), isInt(to) && isInt(from), isFloat(to) && isFloat(from), isString(to) && isString(from), isBool(to) && isBool(from):
		return Val{T: v.T, Ty: to}
	case isInt(to) && isByte(from):
		return Val{T: app("bv2nat", v.T), Ty: to}
	case isByte(to) && isInt(from):
		return Val{T: app("(_ int2bv 8)", v.T), Ty: to}
	case isFloat(to) && isInt(from):
		return Val{T: app("mkF64", "false", app("to_real", v.T)), Ty: to}
	case isInt(to) && isFloat(from):
		return Val{T: app("f.trunc", v.T), Ty: to}
	case isString(to):
		if sl, ok := from.Underlying().(*types.Slice); ok && isByte(sl.Elem()) {
			ref, off, ln, _ := x.sliceParts(v)
			h := x.heap(st, sortBV8)
			return Val{T: app("gs.frombytes", app("select", h, ref), off, ln), Ty: to}
		}
		if isByte(from) {
			return Val{T: app("gs.frombyte", v.T), Ty: to}
		}
		if isInt(from) { // string(rune)
			// ASCII model, added only where a rune is turned back into a string: the rune of a byte is its value, and
			// string(rune of byte b) is the one-byte string b
			x.c.declare("rune.ascii.ax", "(assert (forall ((b (_ BitVec 8))) (! (and (= (rune.ofbyte b) (bv2nat b)) (= (gs.fromrune (rune.ofbyte b)) (gs.frombyte b))) :pattern ((rune.ofbyte b)))))")
			x.c.trusted["string(rune) / range over a string: ASCII model (one rune per byte, rune = byte value)"] = true
			return Val{T: app("gs.fromrune", v.T), Ty: to}
		}
	}
	if sl, ok := to.Underlying().(*types.Slice); ok && isByte(sl.Elem()) && isString(from) {
		ref := x.allocArray(st, sortBV8, app("bytes.ofstr", v.T))
		ln := app("gs.len", v.T)
		return Val{T: x.c.define("sl", sortSlice, app("mkSlice", ref, "0", ln, ln)), Ty: to}
	}
	if types.Identical(to.Underlying(), from.Underlying()) {
		return Val{T: v.T, Ty: to}
	}
	panic(unsupported(fmt.Sprintf("conversion %s -> %s", from, to)))
}

func (x *Exec) evalBuiltin(name string, n *ast.CallExpr, st *State, env *Env) (Val, bool) {
	switch name {
	case "len", "cap":
		v := x.eval(n.Args[0], st, env)
		if v.Seq != nil {
			return Val{T: v.Seq.N, Ty: tInt}, true
		}
		switch u := v.Ty.Underlying().(type) {
		case *types.Slice:
			if name == "cap" {
				return Val{T: x.c.accessor("s.cap", v.T), Ty: tInt}, true
			}
			return Val{T: x.c.accessor("s.len", v.T), Ty: tInt}, true
		case *types.Array:
			return Val{T: intLit(u.Len()), Ty: tInt}, true
		case *types.Basic:
			if isString(v.Ty) {
				return Val{T: app("gs.len", v.T), Ty: tInt}, true
			}
		case *types.Map:
			ms := x.c.mapSort(u)
			return Val{T: x.c.accessor("|"+ms+".size|", v.T), Ty: tInt}, true
		}
		panic(unsupported("len of " + v.Ty.String()))
	case "make":
		var ty types.Type
		if env.info != nil {
			ty = env.info.TypeOf(n.Args[0])
		} else {
			ty = x.resolveTypeExpr(n.Args[0], env)
		}
		switch u := ty.Underlying().(type) {
		case *types.Slice:
			ln := x.defaultType(x.eval(n.Args[1], st, env)).T
			cp := ln
			if len(n.Args) > 2 {
				cp = x.defaultType(x.eval(n.Args[2], st, env)).T
				x.safety("makelen", n, st, and(app("<=", "0", ln), app("<=", ln, cp)), "make: 0 <= len <= cap")
			} else {
				x.safety("makelen", n, st, app("<=", "0", ln), "make: len >= 0")
			}
			es := x.c.sortOf(u.Elem())
			ref := x.allocArray(st, es, x.constArray(es, x.c.zero(u.Elem())))
			return Val{T: x.c.define("sl", sortSlice, app("mkSlice", ref, "0", ln, cp)), Ty: ty}, true
		case *types.Map:
			return Val{T: x.c.zero(ty), Ty: ty}, true
		case *types.Chan:
			for _, a := range n.Args[1:] {
				x.eval(a, st, env)
			}
			if x.con != nil && x.con.Spawns {
				// a member of the family of channels this call makes: its handle comes from the allocation counter (so
				// handles made at different times differ), its ghost log lives in the family arrays
				h := x.c.define("chan", "Int", st.alloc)
				st.alloc = x.c.define("alloc", "Int", add(h, "1"))
				x.famState(st, x.c.sortOf(u.Elem()), u.Elem())
				return Val{T: h, Ty: ty}, true
			}
			v := Val{T: x.c.freshConst("chan", "Int"), Ty: ty}
			x.initHandle(st, v, "made")
			return v, true
		}
	case "append":
		return x.evalAppend(n, st, env), true
	case "copy":
		dst := x.eval(n.Args[0], st, env)
		src := x.eval(n.Args[1], st, env)
		return x.doCopy(dst, src, st, n), true
	case "delete":
		m := x.eval(n.Args[0], st, env)
		u := m.Ty.Underlying().(*types.Map)
		k := x.eval(n.Args[1], st, env)
		if k.Ty == nil {
			k = x.materialize(k, u.Key())
		}
		ms := x.c.mapSort(u)
		dom := x.c.accessor("|"+ms+".dom|", m.T)
		val := x.c.accessor("|"+ms+".val|", m.T)
		size := x.c.accessor("|"+ms+".size|", m.T)
		nm := app("mk_"+ms, app("store", dom, k.T, "false"), app("store", val, k.T, x.c.zero(u.Elem())), sub(size, ite(app("select", dom, k.T), "1", "0")))
		x.assign(n.Args[0], Val{T: x.c.define("m", ms, nm), Ty: m.Ty}, st, env)
		return Val{}, true
	case "min", "max":
		a := x.eval(n.Args[0], st, env)
		b := x.eval(n.Args[1], st, env)
		if a.Ty == nil {
			a = x.materialize(a, b.Ty)
		}
		if a.Ty == nil {
			a = x.defaultType(a)
		}
		if b.Ty == nil {
			b = x.materialize(b, a.Ty)
		}
		if !isInt(a.Ty) {
			panic(unsupported("min/max on " + a.Ty.String()))
		}
		if name == "min" {
			return Val{T: ite(app("<=", a.T, b.T), a.T, b.T), Ty: a.Ty}, true
		}
		return Val{T: ite(app(">=", a.T, b.T), a.T, b.T), Ty: a.Ty}, true
	case "close":
		x.eval(n.Args[0], st, env)
		x.c.notes["close(ch) is a no-op in the sequential channel model (termination of receivers is not decided)"] = true
		return Val{}, true
	case "panic":
		x.safety("panic", n, st, "false", "explicit panic unreachable")
		st.pc = "false"
		return Val{}, true
	}
	return Val{}, false
}

func (x *Exec) doCopy(dst, src Val, st *State, node ast.Node) Val {
	et := x.elemType(dst.Ty)
	es := x.c.sortOf(et)
	dref, doff, dlen, _ := x.sliceParts(dst)
	var srcArr, soff, slen string
	if isString(src.Ty) {
		srcArr, soff, slen = app("bytes.ofstr", src.T), "0", app("gs.len", src.T)
	} else {
		sref, so, sl, _ := x.sliceParts(src)
		h := x.heap(st, es)
		srcArr, soff, slen = app("select", h, sref), so, sl
	}
	n := x.c.define("ncopy", "Int", ite(app("<=", dlen, slen), dlen, slen))
	h := x.heap(st, es)
	x.noteWrite(st, dref, node.Pos(), x.ord[node])
	na := x.bulkCopy(es, app("select", h, dref), doff, srcArr, soff, n)
	st.heaps[es] = x.c.define("H", x.c.heapName(es), app("store", h, dref, na))
	return Val{T: n, Ty: tInt}
}

// bulkCopy returns a fresh array equal to dstArr except [dstPos, dstPos+n) := srcArr[srcPos, srcPos+n)
func (x *Exec) bulkCopy(es, dstArr, dstPos, srcArr, srcPos, n string) string {
	a := x.c.freshConst("A", "(Array Int "+es+")")
	da := x.c.define("dstA", "(Array Int "+es+")", dstArr)
	sa := x.c.define("srcA", "(Array Int "+es+")", srcArr)
	ax := fmt.Sprintf("(forall ((j Int)) (! (= (select %s j) (ite (and (<= %s j) (< j (+ %s %s))) (select %s (+ %s (- j %s))) (select %s j))) :pattern ((select %s j))))",
		a, dstPos, dstPos, n, sa, srcPos, dstPos, da, a)
	x.c.assumes = append(x.c.assumes, ax)
	return a
}

func (x *Exec) evalAppend(n *ast.CallExpr, st *State, env *Env) Val {
	s := x.eval(n.Args[0], st, env)
	var sty types.Type
	if env.info != nil {
		sty = env.info.TypeOf(n)
	} else {
		sty = s.Ty
	}
	if s.Nil {
		s = Val{T: x.c.zero(sty), Ty: sty}
	}
	et := x.elemType(sty)
	es := x.c.sortOf(et)
	ref, off, ln, cp := x.sliceParts(s)
	if len(n.Args) == 1 {
		return s
	}
	var k string // number of appended elements
	spread := n.Ellipsis.IsValid()
	var elems []Val
	var src Val
	if spread {
		src = x.eval(n.Args[1], st, env)
		if isString(src.Ty) {
			k = app("gs.len", src.T)
		} else {
			k = x.c.accessor("s.len", src.T)
		}
	} else {
		for _, a := range n.Args[1:] {
			v := x.eval(a, st, env)
			if v.Ty == nil {
				v = x.materialize(v, et)
			}
			elems = append(elems, v)
		}
		k = intLit(int64(len(elems)))
	}
	newLen := x.c.define("len", "Int", add(ln, k))
	inplace := x.c.define("inplace", "Bool", app("<=", newLen, cp))
	freshRef := st.alloc
	if !isSimple(freshRef) {
		freshRef = x.c.define("ref", "Int", freshRef)
	}
	st.alloc = x.c.define("alloc", "Int", add(freshRef, "1"))
	newCap := x.c.freshConst("cap", "Int")
	x.c.assume("true", app(">=", newCap, newLen))
	h := x.heap(st, es)
	oldArr := x.c.define("arr", "(Array Int "+es+")", app("select", h, ref))
	var newArr string
	if spread {
		var srcArr, soff string
		if isString(src.Ty) {
			srcArr, soff = app("bytes.ofstr", src.T), "0"
		} else {
			sref, so, _, _ := x.sliceParts(src)
			srcArr, soff = app("select", h, sref), so
		}
		newArr = x.bulkCopy(es, oldArr, add(off, ln), srcArr, soff, k)
	} else {
		newArr = oldArr
		for i, v := range elems {
			newArr = app("store", newArr, add(add(off, ln), intLit(int64(i))), v.T)
		}
	}
	tref := x.c.define("ref", "Int", ite(inplace, ref, freshRef))
	// in-place appends write into an existing array: frame obligation guarded by inplace
	{
		save := st.pc
		st.pc = x.namePC(and(save, inplace, app(">", k, "0")))
		x.noteWrite(st, ref, n.Pos(), x.ord[n])
		st.pc = save
	}
	st.heaps[es] = x.c.define("H", x.c.heapName(es), app("store", h, tref, newArr))
	res := app("mkSlice", tref, off, newLen, ite(inplace, cp, add(newCap, "0")))
	return Val{T: x.c.define("sl", sortSlice, res), Ty: sty}
}

// ---------- contract-only pseudo functions ----------

func (x *Exec) bindVar(id ast.Expr) string {
	name, ok := id.(*ast.Ident)
	if !ok {
		panic(unsupported("binder must be an identifier"))
	}
	return name.Name
}

func (x *Exec) evalPseudo(name string, n *ast.CallExpr, st *State, env *Env) (Val, bool) {
	switch name {
	case "forall", "exists":
		if len(n.Args) != 4 {
			panic(unsupported(name + " needs (var, lo, hi, body)"))
		}
		vn := x.bindVar(n.Args[0])
		lo := x.defaultType(x.eval(n.Args[1], st, env)).T
		hi := x.defaultType(x.eval(n.Args[2], st, env)).T
		bv := x.c.freshName(vn)
		body := x.defaultType(x.eval(n.Args[3], st, env.with(vn, Val{T: bv, Ty: tInt}))).T
		rng := and(app("<=", lo, bv), app("<", bv, hi))
		// quantify over the absolute array index when the body reads slices at offset+j: keeps triggers free of arithmetic
		if off := dominantOffset(body, bv); off != "" {
			abs := x.c.freshName("a")
			body = strings.ReplaceAll(body, "(+ "+off+" "+bv+")", abs)
			body = replaceSymbol(body, bv, "(- "+abs+" "+off+")")
			rng = and(app("<=", add(off, lo), abs), app("<", abs, add(off, hi)))
			bv = abs
		}
		if name == "forall" {
			return Val{T: fmt.Sprintf("(forall ((%s Int)) %s)", bv, implies(rng, body)), Ty: tBool}, true
		}
		return Val{T: fmt.Sprintf("(exists ((%s Int)) %s)", bv, and(rng, body)), Ty: tBool}, true
	case "forallint": // forallint(k, body): all integers
		vn := x.bindVar(n.Args[0])
		bv := x.c.freshName(vn)
		body := x.defaultType(x.eval(n.Args[1], st, env.with(vn, Val{T: bv, Ty: tInt}))).T
		return Val{T: fmt.Sprintf("(forall ((%s Int)) %s)", bv, body), Ty: tBool}, true
	case "forallstr": // forallstr(k, body): all strings
		vn := x.bindVar(n.Args[0])
		bv := x.c.freshName(vn)
		body := x.defaultType(x.eval(n.Args[1], st, env.with(vn, Val{T: bv, Ty: tString}))).T
		return Val{T: fmt.Sprintf("(forall ((%s Str)) %s)", bv, body), Ty: tBool}, true
	case "str3":
		a := x.coerce(x.eval(n.Args[0], st, env), tByte)
		b := x.coerce(x.eval(n.Args[1], st, env), tByte)
		c3 := x.coerce(x.eval(n.Args[2], st, env), tByte)
		return Val{T: app("gs.cat", app("gs.cat", app("gs.frombyte", a.T), app("gs.frombyte", b.T)), app("gs.frombyte", c3.T)), Ty: tString}, true
	case "existsb":
		vn := x.bindVar(n.Args[0])
		bv := x.c.freshName(vn)
		body := x.defaultType(x.eval(n.Args[1], st, env.with(vn, Val{T: bv, Ty: tByte}))).T
		return Val{T: fmt.Sprintf("(exists ((%s (_ BitVec 8))) %s)", bv, body), Ty: tBool}, true
	case "strupper": // strings.ToUpper as the same uninterpreted function the code's call is modelled by
		v := x.eval(n.Args[0], st, env)
		x.c.declare("gs.upper", "(declare-fun gs.upper (Str) Str)")
		x.c.declare("gs.upper.len", "(assert (forall ((s Str)) (! (= (gs.len (gs.upper s)) (gs.len s)) :pattern ((gs.upper s)))))")
		return Val{T: app("gs.upper", v.T), Ty: tString}, true
	case "itoa":
		v := x.defaultType(x.eval(n.Args[0], st, env))
		return Val{T: app("gs.itoa", v.T), Ty: tString}, true
	case "nfields", "fieldat": // strings.Fields(s): number of fields / the j-th field (the model's own functions)
		v := x.eval(n.Args[0], st, env)
		x.c.declare("gs.nfields", "(declare-fun gs.nfields (Str) Int)")
		x.c.declare("gs.fields", "(declare-fun gs.fields (Str) (Array Int Str))")
		x.c.declare("gs.nfields.ax", "(assert (forall ((s Str)) (! (>= (gs.nfields s) 0) :pattern ((gs.nfields s)))))")
		if name == "nfields" {
			return Val{T: app("gs.nfields", v.T), Ty: tInt}, true
		}
		j := x.defaultType(x.eval(n.Args[1], st, env))
		return Val{T: app("select", app("gs.fields", v.T), j.T), Ty: tString}, true
	case "atoi": // the value strconv.Atoi returns for s (the same uninterpreted function the code's call is modelled by)
		v := x.eval(n.Args[0], st, env)
		return Val{T: app("gs.atoi", v.T), Ty: tInt}, true
	case "atoiok": // strconv.Atoi(s) returns a nil error (the same uninterpreted function the code's call is modelled by)
		v := x.eval(n.Args[0], st, env)
		x.c.declare("gs.atoierr", "(declare-fun gs.atoierr (Str) "+sortErr+")")
		return Val{T: eq(app("gs.atoierr", v.T), "err.nil"), Ty: tBool}, true
	case "splitn", "splitat": // strings.Split(s, sep): number of parts / the j-th part (the model's own functions)
		v := x.eval(n.Args[0], st, env)
		sep := x.eval(n.Args[1], st, env)
		x.c.declare("gs.nsplit", "(declare-fun gs.nsplit (Str Str) Int)")
		x.c.declare("gs.split", "(declare-fun gs.split (Str Str) (Array Int Str))")
		x.c.declare("gs.nsplit.ax", "(assert (forall ((s Str) (p Str)) (! (>= (gs.nsplit s p) 1) :pattern ((gs.nsplit s p)))))")
		if name == "splitn" {
			return Val{T: app("gs.nsplit", v.T, sep.T), Ty: tInt}, true
		}
		j := x.defaultType(x.eval(n.Args[2], st, env))
		return Val{T: app("select", app("gs.split", v.T, sep.T), j.T), Ty: tString}, true
	case "fmtfloat":
		v := x.defaultType(x.eval(n.Args[0], st, env))
		return Val{T: app("gs.fmtfloat", v.T), Ty: tString}, true
	case "join": // join(slice, sep): strings.Join
		sv := x.eval(n.Args[0], st, env)
		sep := x.eval(n.Args[1], st, env)
		x.c.declare("gs.join", "(declare-fun gs.join ((Array Int Str) Int Int Str) Str)")
		ref, off, ln, _ := x.sliceParts(sv)
		h := x.heap(st, sortStr)
		return Val{T: app("gs.join", app("select", h, ref), off, ln, sep.T), Ty: tString}, true
	case "forallb": // forallb(b, body): all bytes
		vn := x.bindVar(n.Args[0])
		bv := x.c.freshName(vn)
		body := x.defaultType(x.eval(n.Args[1], st, env.with(vn, Val{T: bv, Ty: tByte}))).T
		return Val{T: fmt.Sprintf("(forall ((%s (_ BitVec 8))) %s)", bv, body), Ty: tBool}, true
	case "implies":
		a := x.defaultType(x.eval(n.Args[0], st, env)).T
		b := x.defaultType(x.eval(n.Args[1], st, env)).T
		return Val{T: implies(a, b), Ty: tBool}, true
	case "iff":
		a := x.defaultType(x.eval(n.Args[0], st, env)).T
		b := x.defaultType(x.eval(n.Args[1], st, env)).T
		return Val{T: eq(a, b), Ty: tBool}, true
	case "ite":
		c := x.defaultType(x.eval(n.Args[0], st, env)).T
		a := x.eval(n.Args[1], st, env)
		b := x.eval(n.Args[2], st, env)
		if a.Ty == nil && b.Ty != nil {
			a = x.materialize(a, b.Ty)
		}
		if b.Ty == nil && a.Ty != nil {
			b = x.materialize(b, a.Ty)
		}
		a = x.defaultType(a)
		b = x.defaultType(b)
		return Val{T: ite(c, a.T, b.T), Ty: a.Ty}, true
	case "old":
		if env.old == nil {
			panic(unsupported("old() not available here"))
		}
		oenv := env
		if len(env.oldNames) > 0 {
			cp := *env
			cp.names = mergeNames(env.names, env.oldNames)
			oenv = &cp
		}
		return x.eval(n.Args[0], env.old, oenv), true
	case "count":
		return x.evalCount(n, st, env), true
	case "sum":
		return x.evalSum(n, st, env), true
	case "countsame":
		// countsame(k, lo, hi, P, Q): lemma instance (valid by induction on hi): two predicates that agree throughout
		// [lo,hi) are counted equally often there. Added to the assumptions; the call evaluates to true. Not under a quantifier.
		mk := func(body ast.Expr) Val {
			return x.evalCount(&ast.CallExpr{Fun: ast.NewIdent("count"), Args: []ast.Expr{n.Args[0], n.Args[1], n.Args[2], body}}, st, env)
		}
		cp := mk(n.Args[3])
		cq := mk(n.Args[4])
		vn := x.bindVar(n.Args[0])
		lo := x.defaultType(x.eval(n.Args[1], st, env)).T
		hi := x.defaultType(x.eval(n.Args[2], st, env)).T
		bv := x.c.freshName(vn)
		pb := x.defaultType(x.eval(n.Args[3], st, env.with(vn, Val{T: bv, Ty: tInt}))).T
		qb := x.defaultType(x.eval(n.Args[4], st, env.with(vn, Val{T: bv, Ty: tInt}))).T
		rng := and(app("<=", lo, bv), app("<", bv, hi))
		x.c.assumes = append(x.c.assumes, implies(fmt.Sprintf("(forall ((%s Int)) %s)", bv, implies(rng, eq(pb, qb))), eq(cp.T, cq.T)))
		return Val{T: "true", Ty: tBool}, true
	case "countzero", "countall":
		// lemma instance (valid by induction on hi): a predicate false throughout [lo,hi) is counted 0 times;
		// true throughout: hi-lo times. The instance is added to the assumptions; the call itself evaluates to true.
		// Must not be used under a quantifier (its arguments would mention the bound variable).
		cnt := x.evalCount(n, st, env)
		vn := x.bindVar(n.Args[0])
		lo := x.defaultType(x.eval(n.Args[1], st, env)).T
		hi := x.defaultType(x.eval(n.Args[2], st, env)).T
		bv := x.c.freshName(vn)
		body := x.defaultType(x.eval(n.Args[3], st, env.with(vn, Val{T: bv, Ty: tInt}))).T
		rng := and(app("<=", lo, bv), app("<", bv, hi))
		if name == "countzero" {
			x.c.assumes = append(x.c.assumes, implies(fmt.Sprintf("(forall ((%s Int)) %s)", bv, implies(rng, not(body))), eq(cnt.T, "0")))
		} else {
			x.c.assumes = append(x.c.assumes, implies(and(app("<=", lo, hi), fmt.Sprintf("(forall ((%s Int)) %s)", bv, implies(rng, body))), eq(cnt.T, sub(hi, lo))))
		}
		return Val{T: "true", Ty: tBool}, true
	case "sent", "recv", "written":
		h := x.eval(n.Args[0], st, env)
		key := name + ":" + h.T
		v, ok := st.gh[key]
		if !ok {
			if u, isCh := h.Ty.Underlying().(*types.Chan); isCh && name == "sent" {
				if fv, ok := x.famView(st, x.c.sortOf(u.Elem()), u.Elem(), h.T); ok {
					return fv, true
				}
			}
			panic(unsupported(name + "() of a handle without ghost state: " + exprString(n.Args[0])))
		}
		return v, true
	case "recvd", "envat": // recvd(ch): the values received so far on a channel this call made; envat(ch, k): the k-th value of its environment stream
		h := x.eval(n.Args[0], st, env)
		u, isCh := h.Ty.Underlying().(*types.Chan)
		if !isCh {
			panic(unsupported(name + "() of a non-channel"))
		}
		es := x.c.sortOf(u.Elem())
		fe, ok := st.gh["famenv:"+es]
		if !ok {
			panic(unsupported(name + "(): no channel family of that element type in this function"))
		}
		if name == "envat" {
			k := x.defaultType(x.eval(n.Args[1], st, env))
			return Val{T: app("select", app("select", fe.T, h.T), k.T), Ty: u.Elem()}, true
		}
		return Val{Seq: &SeqVal{Arr: app("select", fe.T, h.T), N: app("select", st.gh["famrecvn:"+es].T, h.T), Elem: u.Elem(), ESort: es}}, true
	case "lines", "linepos":
		h := x.eval(n.Args[0], st, env)
		key := "scan:" + x.c.resolveAlias(h.T)
		if name == "linepos" {
			key = "scanpos:" + x.c.resolveAlias(h.T)
		}
		v, ok := st.gh[key]
		if !ok {
			panic(unsupported(name + "() of something that is not a scanner"))
		}
		return v, true
	case "sorted": // sorted(s): ascending []string (by <) or []int (by <=), as a predicate symbol with a definitional axiom
		sv := x.eval(n.Args[0], st, env)
		et := x.elemType(sv.Ty)
		ref, off, ln, _ := x.sliceParts(sv)
		if isString(et) {
			return Val{T: app("gs.sorted", app("select", x.heap(st, sortStr), ref), off, ln), Ty: tBool}, true
		}
		if isInt(et) {
			return Val{T: app("int.sorted", app("select", x.heap(st, "Int"), ref), off, ln), Ty: tBool}, true
		}
		panic(unsupported("sorted() on " + sv.Ty.String()))
	case "opkind": // opkind(op): the CIGAR operation letter of a biogo CigarOp
		v := x.eval(n.Args[0], st, env)
		return Val{T: app("cig.typestr", app("cig.type", v.T)), Ty: tString}, true
	case "oplen":
		v := x.eval(n.Args[0], st, env)
		return Val{T: app("cig.len", v.T), Ty: tInt}, true
	case "mapkey", "mapidx":
		// enumeration of the innermost `range` over a map: mapkey(t) is the key visited at step t, mapidx(k) the step of key k
		f, ok := x.baseFuncs[name]
		if !ok {
			panic(unsupported(name + "() outside a range-over-map loop"))
		}
		v := x.eval(n.Args[0], st, env)
		if name == "mapkey" {
			v = x.defaultType(v)
			return Val{T: app(f.T, v.T), Ty: f.Ty}, true
		}
		v = x.coerce(v, f.Ty)
		return Val{T: app(f.T, v.T), Ty: tInt}, true
	case "uselemma":
		// uselemma(name, args…): instance of a lemma that is proved separately (obligation lemma.<name>); the instance is
		// added to the assumptions and is also the value of the call. Not to be used under a quantifier.
		id, ok := n.Args[0].(*ast.Ident)
		if !ok {
			panic(unsupported("uselemma: first argument must be the lemma name"))
		}
		var lm *Lemma
		for _, l := range x.g.cs.Lemmas {
			if l.Name == id.Name {
				lm = l
			}
		}
		if lm == nil || len(lm.Vars) != len(n.Args)-1 {
			panic(unsupported("uselemma: unknown lemma or wrong number of arguments: " + id.Name))
		}
		ne := &Env{contract: true, names: map[string]Val{}, pkg: env.pkg}
		for i, v := range lm.Vars {
			a := x.eval(n.Args[i+1], st, env)
			a = x.coerce(a, x.resolveTypeText(v.Type))
			ne.names[v.Name] = a
		}
		f := x.defaultType(x.eval(lm.Expr.Expr, st, ne)).T
		x.c.assumes = append(x.c.assumes, f)
		x.usedContracts["lemma."+lm.Name] = true
		return Val{T: f, Ty: tBool}, true
	case "arg": // arg(i) in a before/after call:… point: the i-th actual argument of that call, evaluated in the current state
		lit, ok := n.Args[0].(*ast.BasicLit)
		if !ok || x.curCall == nil {
			panic(unsupported("arg(i) needs a literal index and a before/after call:Name#k point"))
		}
		i, _ := strconv.Atoi(lit.Value)
		if i < 0 || i >= len(x.curCall.Args) {
			panic(unsupported("arg(" + lit.Value + "): the call has fewer arguments"))
		}
		saved := x.c.inContract
		x.c.inContract++
		v := x.eval(x.curCall.Args[i], st, x.codeEnv)
		x.c.inContract = saved
		return v, true
	case "ret": // ret() in an `after call:Name#k` point: the value that call returned (the first one of several)
		if x.curCall == nil {
			panic(unsupported("ret() needs an after call:Name#k point"))
		}
		v, ok := x.callResults[x.curCall]
		if !ok {
			panic(unsupported("ret(): the call has not been executed at this point"))
		}
		if len(v.Tuple) > 0 {
			v = v.Tuple[0]
		}
		if v.T == "" && !v.Nil && v.Seq == nil && v.C == nil {
			panic(unsupported("ret(): the call returns nothing"))
		}
		return v, true
	case "pre": // pre(N, e): e evaluated in the state at the start of the current iteration of loop N
		lit, ok := n.Args[0].(*ast.BasicLit)
		if !ok {
			panic(unsupported("pre(N, e): N must be a loop ordinal literal"))
		}
		ord, _ := strconv.Atoi(lit.Value)
		ist := x.iterStart[ord]
		if ist == nil {
			panic(unsupported("pre(" + lit.Value + ", …) used outside the body of loop " + lit.Value))
		}
		return x.eval(n.Args[1], ist, env), true
	case "sortless":
		// sortless(i, j): the comparator of the most recent sort.Slice* call (a single-return literal) evaluated on the
		// current contents of the sorted slice at positions i, j
		if x.lastLess == nil {
			panic(unsupported("sortless() without a preceding sort with a single-expression comparator"))
		}
		a := x.defaultType(x.eval(n.Args[0], st, env))
		b := x.defaultType(x.eval(n.Args[1], st, env))
		return Val{T: x.lastLess(st, a.T, b.T), Ty: tBool}, true
	case "sortperm", "sortinv":
		// permutation of the most recent sort.Slice* call in this function: new position -> old position (sortperm) and back
		if x.lastPerm[0] == "" {
			panic(unsupported(name + "() without a preceding sort"))
		}
		v := x.defaultType(x.eval(n.Args[0], st, env))
		f := x.lastPerm[0]
		if name == "sortinv" {
			f = x.lastPerm[1]
		}
		return Val{T: app(f, v.T), Ty: tInt}, true
	case "recvpos":
		h := x.eval(n.Args[0], st, env)
		v, ok := st.gh["recvpos:"+h.T]
		if !ok {
			panic(unsupported("recvpos() of unknown channel"))
		}
		return v, true
	case "failed":
		h := x.eval(n.Args[0], st, env)
		v, ok := st.gh["failed:"+h.T]
		if !ok {
			panic(unsupported("failed() of unknown writer"))
		}
		return v, true
	case "in": // in(m, k): key present in map
		m := x.eval(n.Args[0], st, env)
		u := m.Ty.Underlying().(*types.Map)
		k := x.eval(n.Args[1], st, env)
		if k.Ty == nil {
			k = x.materialize(k, u.Key())
		}
		ms := x.c.mapSort(u)
		return Val{T: app("select", x.c.accessor("|"+ms+".dom|", m.T), k.T), Ty: tBool}, true
	case "sameref": // sameref(a, b): two slices share their backing array and offset
		a := x.eval(n.Args[0], st, env)
		b := x.eval(n.Args[1], st, env)
		return Val{T: and(eq(x.c.accessor("s.ref", a.T), x.c.accessor("s.ref", b.T)), eq(x.c.accessor("s.off", a.T), x.c.accessor("s.off", b.T))), Ty: tBool}, true
	case "samearray": // the two slices are views of the same backing array
		a := x.eval(n.Args[0], st, env)
		b := x.eval(n.Args[1], st, env)
		return Val{T: eq(x.c.accessor("s.ref", a.T), x.c.accessor("s.ref", b.T)), Ty: tBool}, true
	case "sameslice":
		a := x.eval(n.Args[0], st, env)
		b := x.eval(n.Args[1], st, env)
		return Val{T: eq(a.T, b.T), Ty: tBool}, true
	case "disjoint": // arrays of two slices differ
		a := x.eval(n.Args[0], st, env)
		b := x.eval(n.Args[1], st, env)
		return Val{T: not(eq(x.c.accessor("s.ref", a.T), x.c.accessor("s.ref", b.T))), Ty: tBool}, true
	case "allocated": // allocated(s): the slice's backing array exists in the current state (its reference is below the allocation counter)
		a := x.eval(n.Args[0], st, env)
		r := x.c.accessor("s.ref", a.T)
		return Val{T: and(app("<=", "0", r), app("<", r, st.alloc)), Ty: tBool}, true
	case "madechan": // madechan(c): the channel was made by this call (a member of the family; its handle lies in [alloc0, alloc))
		a := x.eval(n.Args[0], st, env)
		return Val{T: and(app("<=", x.alloc0, a.T), app("<", a.T, st.alloc)), Ty: tBool}, true
	case "freshslice": // slice allocated by this call
		a := x.eval(n.Args[0], st, env)
		base := x.alloc0
		if env.old != nil {
			base = env.old.alloc
		}
		return Val{T: app(">=", x.c.accessor("s.ref", a.T), base), Ty: tBool}, true
	case "log":
		v := x.defaultType(x.eval(n.Args[0], st, env))
		val := x.c.accessor("f.val", v.T)
		return Val{T: app("mkF64", or(x.c.accessor("f.nan", v.T), app("<", val, "0.0")), app("f.log", val)), Ty: tFloat}, true
	case "isnan":
		a := x.eval(n.Args[0], st, env)
		return Val{T: x.c.accessor("f.nan", a.T), Ty: tBool}, true
	case "real": // real(f) : the real value of a float (contracts only)
		a := x.eval(n.Args[0], st, env)
		return Val{T: a.T, Ty: a.Ty}, true
	case "nilerr":
		a := x.eval(n.Args[0], st, env)
		return Val{T: eq(a.T, "err.nil"), Ty: tBool}, true
	}
	switch name {
	case "byte", "int", "float64", "string", "bool", "int64":
		ty := x.resolveTypeExpr(n.Fun, env)
		return x.convert(ty, x.eval(n.Args[0], st, env), st), true
	}
	// spec functions
	if sf := x.g.cs.lookupSpec(env.specPkgName(x), name); sf != nil {
		return x.applySpec(sf, n, st, env), true
	}
	return Val{}, false
}

func (e *Env) specPkgName(x *Exec) string {
	if e.pkg != nil {
		return e.pkg.Name()
	}
	return x.fi.Pkg.Types.Name()
}

func (cs *ContractSet) lookupSpec(pkg, name string) *SpecFunc {
	if sf, ok := cs.Specs[pkg+"."+name]; ok {
		return sf
	}
	if sf, ok := cs.Specs[name]; ok {
		return sf
	}
	return nil
}

// applyPred: an abstract predicate `pred name(params) = body`. It is an uninterpreted predicate symbol over the scalar
// arguments and, for each slice argument, its (array, offset, length); one definitional axiom ties it to the body. Nested
// quantifiers in the body are thereby hidden behind a symbol, which keeps instantiation of enclosing quantifiers simple.
func (x *Exec) applyPred(sf *SpecFunc, n *ast.CallExpr, st *State, env *Env) Val {
	c := x.c
	fname := "pred." + sf.Name
	var actual []string
	type pinfo struct {
		ty    types.Type
		slice bool
		es    string
	}
	var infos []pinfo
	for i, a := range n.Args {
		pty := x.resolveTypeText(sf.Params[i].Type)
		v := x.coerce(x.eval(a, st, env), pty)
		if sl, ok := pty.Underlying().(*types.Slice); ok {
			es := c.sortOf(sl.Elem())
			ref, off, ln, _ := x.sliceParts(v)
			actual = append(actual, app("select", x.heap(st, es), ref), off, ln)
			infos = append(infos, pinfo{pty, true, es})
		} else {
			actual = append(actual, v.T)
			infos = append(infos, pinfo{pty, false, ""})
		}
	}
	if !c.declared[fname] {
		var sorts, decls, formals []string
		ne := &Env{contract: true, names: map[string]Val{}, pkg: env.pkg}
		repl := map[string]string{}
		for i, p := range sf.Params {
			inf := infos[i]
			if inf.slice {
				A, o, ln, r := "pA"+p.Name, "po"+p.Name, "pn"+p.Name, "pr"+p.Name+"$"
				sorts = append(sorts, "(Array Int "+inf.es+")", "Int", "Int")
				decls = append(decls, fmt.Sprintf("(%s (Array Int %s))", A, inf.es), fmt.Sprintf("(%s Int)", o), fmt.Sprintf("(%s Int)", ln))
				formals = append(formals, A, o, ln)
				ne.names[p.Name] = Val{T: app("mkSlice", r, o, ln, ln), Ty: inf.ty}
				repl["(select "+x.heap(st, inf.es)+" "+r+")"] = A
			} else {
				s := c.sortOf(inf.ty)
				sorts = append(sorts, s)
				decls = append(decls, fmt.Sprintf("(pp%s %s)", p.Name, s))
				formals = append(formals, "pp"+p.Name)
				ne.names[p.Name] = Val{T: "pp" + p.Name, Ty: inf.ty}
			}
		}
		c.inContract++
		body := x.defaultType(x.eval(sf.Body, st, ne)).T
		c.inContract--
		for k, v := range repl {
			body = strings.ReplaceAll(body, k, v)
		}
		if strings.Contains(body, "$") {
			panic(unsupported("pred " + sf.Name + ": a slice parameter is used other than by reading its elements"))
		}
		// any other heap the body reads (through slices stored inside the elements) becomes an implicit parameter
		var implicit []string
		for _, es := range sortedKeys(c.heapSorts) {
			hn, ok := st.heaps[es]
			if !ok || !containsSymbol(body, hn) {
				continue
			}
			pn := "pH" + sortKey(es)
			body = replaceSymbol(body, hn, pn)
			sorts = append(sorts, c.heapName(es))
			decls = append(decls, fmt.Sprintf("(%s %s)", pn, c.heapName(es)))
			formals = append(formals, pn)
			implicit = append(implicit, es)
		}
		c.predImplicit[fname] = implicit
		c.declare(fname, fmt.Sprintf("(declare-fun %s (%s) Bool)", fname, strings.Join(sorts, " ")))
		call := app(fname, formals...)
		c.decls = append(c.decls, fmt.Sprintf("(assert (forall (%s) (! (= %s %s) :pattern (%s))))", strings.Join(decls, " "), call, body, call))
	}
	for _, es := range c.predImplicit[fname] {
		actual = append(actual, x.heap(st, es))
	}
	return Val{T: app(fname, actual...), Ty: tBool}
}

func containsSymbol(t, sym string) bool {
	return replaceSymbol(t, sym, "\x00") != t
}

func (x *Exec) applySpec(sf *SpecFunc, n *ast.CallExpr, st *State, env *Env) Val {
	if len(n.Args) != len(sf.Params) {
		panic(unsupported("spec function " + sf.Name + ": wrong argument count"))
	}
	if sf.IsPred {
		return x.applyPred(sf, n, st, env)
	}
	rty := x.resolveTypeText(sf.Result)
	var args []Val
	for i, a := range n.Args {
		v := x.eval(a, st, env)
		pty := x.resolveTypeText(sf.Params[i].Type)
		if v.Ty == nil {
			v = x.materialize(v, pty)
		}
		args = append(args, v)
	}
	scalar := true
	for _, p := range sf.Params {
		switch x.resolveTypeText(p.Type).Underlying().(type) {
		case *types.Basic:
		default:
			scalar = false
		}
	}
	if sf.Body != nil && scalar {
		fname := "spec." + sf.Name
		if !x.c.declared[fname] {
			ne := &Env{contract: true, names: map[string]Val{}, scopePos: token.NoPos, pkg: env.pkg}
			var ps []string
			for _, p := range sf.Params {
				pty := x.resolveTypeText(p.Type)
				pn := "sp_" + p.Name
				ne.names[p.Name] = Val{T: pn, Ty: pty}
				ps = append(ps, fmt.Sprintf("(%s %s)", pn, x.c.sortOf(pty)))
			}
			x.c.inContract++
			v := x.eval(sf.Body, st, ne)
			x.c.inContract--
			if v.Ty == nil {
				v = x.materialize(v, rty)
			}
			x.c.declare(fname, fmt.Sprintf("(define-fun %s (%s) %s %s)", fname, strings.Join(ps, " "), x.c.sortOf(rty), v.T))
		}
		var ts []string
		for _, a := range args {
			ts = append(ts, a.T)
		}
		return Val{T: app(fname, ts...), Ty: rty}
	}
	if sf.Body != nil {
		// macro expansion
		ne := &Env{contract: true, names: map[string]Val{}, old: env.old, scopePos: token.NoPos, pkg: env.pkg}
		for i, p := range sf.Params {
			ne.names[p.Name] = args[i]
		}
		v := x.eval(sf.Body, st, ne)
		if v.Ty == nil {
			v = x.materialize(v, rty)
		}
		return Val{T: v.T, Ty: rty}
	}
	fname := "spec." + sf.Name
	if !x.c.declared[fname] {
		var ps []string
		var psorts []string
		for _, p := range sf.Params {
			s := x.c.sortOf(x.resolveTypeText(p.Type))
			ps = append(ps, fmt.Sprintf("(%s %s)", p.Name, s))
			psorts = append(psorts, s)
		}
		if sf.Uninterp {
			x.c.declare(fname, fmt.Sprintf("(declare-fun %s (%s) %s)", fname, strings.Join(psorts, " "), x.c.sortOf(rty)))
		} else {
			x.ensureSpecsIn(sf.SMT, env, st)
			x.c.declare(fname, fmt.Sprintf("(define-fun %s (%s) %s %s)", fname, strings.Join(ps, " "), x.c.sortOf(rty), sf.SMT))
		}
	}
	var ts []string
	for _, a := range args {
		ts = append(ts, a.T)
	}
	return Val{T: app(fname, ts...), Ty: rty}
}

// count(k, lo, hi, pred): number of k in [lo,hi) with pred(k); axiomatised by one-step unfolding at the upper end.
type absParam struct {
	term string
	sort string
}

// abstractArrays replaces, inside a count/sum body, every array value `(select H ref)` that is read at an index
// depending on the bound variable (and its slice offset) by a parameter of the generated function. Equal arrays then give
// equal counts by congruence, whatever the textual form of the heap/ref terms.
func (x *Exec) abstractArrays(t string, params *[]absParam) string {
	h, args, ok := splitSexp(t)
	if !ok {
		return t
	}
	add := func(term, sort string) string {
		for i, p := range *params {
			if p.term == term {
				return fmt.Sprintf("$P%d", i)
			}
		}
		*params = append(*params, absParam{term, sort})
		return fmt.Sprintf("$P%d", len(*params)-1)
	}
	if h == "select" && len(args) == 2 && strings.Contains(args[1], "$k") {
		if h2, a2, ok2 := splitSexp(args[0]); ok2 && h2 == "select" && len(a2) == 2 && !strings.Contains(args[0], "$k") {
			if hs, okh := x.c.sorts[a2[0]]; okh && strings.HasPrefix(hs, "(Array Int (Array Int ") {
				arrSort := strings.TrimSuffix(strings.TrimPrefix(hs, "(Array Int "), ")")
				arr := add(args[0], arrSort)
				idx := args[1]
				if hi, ai, oki := splitSexp(idx); oki && hi == "+" && len(ai) == 2 && ai[1] == "$k" && !strings.Contains(ai[0], "$k") {
					idx = "(+ " + add(ai[0], "Int") + " $k)"
				} else {
					idx = x.abstractArrays(idx, params)
				}
				return "(select " + arr + " " + idx + ")"
			}
		}
	}
	out := make([]string, len(args))
	for i, a := range args {
		out[i] = x.abstractArrays(a, params)
	}
	return "(" + h + " " + strings.Join(out, " ") + ")"
}

func (x *Exec) recFun(kind string, key string, isSum bool) (fn string, params []absParam) {
	shape := x.abstractArrays(key, &params)
	ck := kind + ":" + shape
	for _, p := range params {
		ck += "|" + p.sort
	}
	fn, ok := x.c.cntDefs[ck]
	if ok {
		return fn, params
	}
	fn = fmt.Sprintf("%s!%d", kind, len(x.c.cntDefs))
	x.c.cntDefs[ck] = fn
	var psorts, pdecl, pnames []string
	body := shape
	for i, p := range params {
		psorts = append(psorts, p.sort)
		pn := fmt.Sprintf("q%d", i)
		pdecl = append(pdecl, fmt.Sprintf("(%s %s)", pn, p.sort))
		pnames = append(pnames, pn)
		body = strings.ReplaceAll(body, fmt.Sprintf("$P%d", i), pn)
	}
	ps := strings.Join(psorts, " ")
	pd := strings.Join(pdecl, " ")
	pa := strings.Join(pnames, " ")
	if pa != "" {
		pa += " "
	}
	x.c.declare(fn, fmt.Sprintf("(declare-fun %s (%s Int Int) Int)", fn, ps))
	call := func(a, b string) string { return "(" + fn + " " + pa + a + " " + b + ")" }
	at := func(k string) string { return strings.ReplaceAll(body, "$k", k) }
	q := func(vars string) string { return "(forall (" + strings.TrimSpace(pd+" "+vars) + ") " }
	if isSum {
		x.c.assumes = append(x.c.assumes,
			q("(a Int) (b Int)")+fmt.Sprintf("(! (=> (<= b a) (= %s 0)) :pattern (%s)))", call("a", "b"), call("a", "b")),
			q("(a Int) (b Int)")+fmt.Sprintf("(! (=> (< a b) (= %s (+ %s %s))) :pattern (%s)))", call("a", "b"), call("a", "(- b 1)"), at("(- b 1)"), call("a", "b")),
			q("(a Int) (b Int) (c Int)")+fmt.Sprintf("(! (=> (and (<= a b) (<= b c)) (= %s (+ %s %s))) :pattern (%s %s)))", call("a", "c"), call("a", "b"), call("b", "c"), call("a", "b"), call("b", "c")))
		return fn, params
	}
	x.c.assumes = append(x.c.assumes,
		q("(a Int) (b Int)")+fmt.Sprintf("(! (=> (<= b a) (= %s 0)) :pattern (%s)))", call("a", "b"), call("a", "b")),
		q("(a Int) (b Int)")+fmt.Sprintf("(! (=> (< a b) (= %s (+ %s (ite %s 1 0)))) :pattern (%s)))", call("a", "b"), call("a", "(- b 1)"), at("(- b 1)"), call("a", "b")),
		q("(a Int) (b Int)")+fmt.Sprintf("(! (and (<= 0 %s) (=> (<= a b) (<= %s (- b a)))) :pattern (%s)))", call("a", "b"), call("a", "b"), call("a", "b")),
		// consequences of the definition (each provable by induction on the upper bound; stated as axioms because the
		// solvers do not do induction): monotonicity, additivity, strictness at a counted position
		q("(a Int) (b Int) (c Int)")+fmt.Sprintf("(! (=> (<= b c) (<= %s %s)) :pattern (%s %s)))", call("a", "b"), call("a", "c"), call("a", "b"), call("a", "c")),
		q("(a Int) (j Int) (b Int)")+fmt.Sprintf("(! (=> (and (<= a j) (< j b) %s) (< %s %s)) :pattern (%s %s)))", at("j"), call("a", "j"), call("a", "b"), call("a", "j"), call("a", "b")))
	return fn, params
}

func (x *Exec) evalCount(n *ast.CallExpr, st *State, env *Env) Val {
	vn := x.bindVar(n.Args[0])
	lo := x.defaultType(x.eval(n.Args[1], st, env)).T
	hi := x.defaultType(x.eval(n.Args[2], st, env)).T
	x.c.inContract++
	key := x.defaultType(x.eval(n.Args[3], st, env.with(vn, Val{T: "$k", Ty: tInt}))).T
	x.c.inContract--
	fn, params := x.recFun("cnt", key, false)
	var args []string
	for _, p := range params {
		args = append(args, p.term)
	}
	args = append(args, lo, hi)
	return Val{T: app(fn, args...), Ty: tInt}
}

var reBound = regexp.MustCompile(`\(\(([A-Za-z_][A-Za-z0-9_.]*![0-9]+) `)

// dominantOffset finds the most frequent X in subterms "(+ X v)" of t.
func dominantOffset(t, v string) string {
	counts := map[string]int{}
	suffix := " " + v + ")"
	for i := 0; i+len(suffix) <= len(t); i++ {
		if !strings.HasPrefix(t[i:], suffix) {
			continue
		}
		// walk back to the matching "(+ "
		depth := 0
		j := i - 1
		for ; j >= 0; j-- {
			if t[j] == ')' {
				depth++
			} else if t[j] == '(' {
				if depth == 0 {
					break
				}
				depth--
			}
		}
		if j >= 0 && strings.HasPrefix(t[j:], "(+ ") {
			x := t[j+3 : i]
			if strings.Count(x, "(") == strings.Count(x, ")") && !strings.Contains(x, v) {
				counts[x]++
			}
		}
	}
	// an offset that mentions a variable bound inside t is not in scope outside it
	inner := map[string]bool{}
	for _, m := range reBound.FindAllStringSubmatch(t, -1) {
		inner[m[1]] = true
	}
	for k := range counts {
		for b := range inner {
			if strings.Contains(k, b) {
				delete(counts, k)
				break
			}
		}
	}
	best, bn := "", 0
	for k, n := range counts {
		if n > bn || (n == bn && k < best) {
			best, bn = k, n
		}
	}
	return best
}

// replaceSymbol replaces whole-symbol occurrences of sym in t.
func replaceSymbol(t, sym, by string) string {
	var b strings.Builder
	for i := 0; i < len(t); {
		if strings.HasPrefix(t[i:], sym) {
			before := i == 0 || strings.ContainsRune(" ()", rune(t[i-1]))
			after := i+len(sym) == len(t) || strings.ContainsRune(" ()", rune(t[i+len(sym)]))
			if before && after {
				b.WriteString(by)
				i += len(sym)
				continue
			}
		}
		b.WriteByte(t[i])
		i++
	}
	return b.String()
}

// sum(k, lo, hi, term): Σ term(k) for k in [lo,hi); one-step unfolding at the upper end plus additivity.
func (x *Exec) evalSum(n *ast.CallExpr, st *State, env *Env) Val {
	vn := x.bindVar(n.Args[0])
	lo := x.defaultType(x.eval(n.Args[1], st, env)).T
	hi := x.defaultType(x.eval(n.Args[2], st, env)).T
	x.c.inContract++
	key := x.defaultType(x.eval(n.Args[3], st, env.with(vn, Val{T: "$k", Ty: tInt}))).T
	x.c.inContract--
	fn, params := x.recFun("sum", key, true)
	var args []string
	for _, p := range params {
		args = append(args, p.term)
	}
	args = append(args, lo, hi)
	return Val{T: app(fn, args...), Ty: tInt}
}

// ensureSpecsIn declares the spec functions referenced as spec.<name> inside a raw SMT body (scalar go-expression or smt specs)
func (x *Exec) ensureSpecsIn(body string, env *Env, st *State) {
	re := regexp.MustCompile(`spec\.([A-Za-z_][A-Za-z0-9_]*)`)
	for _, m := range re.FindAllStringSubmatch(body, -1) {
		name := m[1]
		if x.c.declared["spec."+name] {
			continue
		}
		sf := x.g.cs.lookupSpec(env.specPkgName(x), name)
		if sf == nil {
			panic(unsupported("spec function " + name + " referenced in an smt body is not defined"))
		}
		// build a dummy call with parameter-typed zero arguments to force the declaration
		call := &ast.CallExpr{Fun: ast.NewIdent(name)}
		ne := &Env{contract: true, names: map[string]Val{}, pkg: env.pkg}
		for i, p := range sf.Params {
			pn := fmt.Sprintf("zz%d", i)
			ty := x.resolveTypeText(p.Type)
			ne.names[pn] = Val{T: x.c.zero(ty), Ty: ty}
			call.Args = append(call.Args, ast.NewIdent(pn))
		}
		x.applySpec(sf, call, st, ne)
	}
}
