//go:build verif

package updown

//@ # C19: return-style writers. result == nil implies every Write succeeded.
//@ func writeUpDownCatchment
//@   modifies w
//@   loop 1:
//@     invariant !failed(w)
//@   loop 2:
//@     invariant !failed(w)
//@   loop 3:
//@     invariant !failed(w)
//@   loop 4:
//@     invariant !failed(w)
//@   loop 5:
//@     invariant !failed(w)
//@   ensures [c19] implies(result == nil, !failed(w))

//@ func writeUpdownTable
//@   modifies w
//@   loop 1:
//@     invariant !failed(w)
//@   loop 2:
//@     invariant !failed(w)
//@   loop 3:
//@     invariant !failed(w)
//@   loop 4:
//@     invariant !failed(w)
//@   loop 5:
//@     invariant !failed(w)
//@   ensures [c19] implies(result == nil, !failed(w))

//@ spec posOf(k int) int uninterpreted

//@ # C10/C12/C19: updown list writer. Rows in idx order for every arrival order; ambiguity ranges rendered "a" when
//@ # start == end and "a-b" otherwise (asserted at each append); a failed Write is reported and done is withheld.
//@ func writeOutput
//@   modifies w, cErr, cWriteDone
//@   requires forall(k, 0, len(recv(cudLs)), 0 <= posOf(k) && posOf(k) < len(recv(cudLs)) && recv(cudLs)[posOf(k)].idx == k)
//@   requires forall(a, 0, len(recv(cudLs)), 0 <= recv(cudLs)[a].idx && recv(cudLs)[a].idx < len(recv(cudLs)) && posOf(recv(cudLs)[a].idx) == a)
//@   requires forall(a, 0, len(recv(cudLs)), len(recv(cudLs)[a].ambs) % 2 == 0)
//@   loop 1:
//@     invariant 0 <= counter && counter <= len(recv(cudLs)) && !in(outputMap, counter)
//@     invariant forallint(k, in(outputMap, k) == (counter <= k && k < len(recv(cudLs)) && posOf(k) < range_i))
//@     invariant forall(k, counter, len(recv(cudLs)), implies(posOf(k) < range_i, outputMap[k] == recv(cudLs)[posOf(k)]))
//@     invariant forall(k, 0, counter, posOf(k) < range_i)
//@     invariant !failed(w) && len(sent(cErr)) == 0 && len(sent(cWriteDone)) == 0
//@     invariant len(written(w)) == 1 + counter
//@   loop 2:
//@     invariant 0 <= counter && counter <= len(recv(cudLs))
//@     invariant forallint(k, in(outputMap, k) == (counter <= k && k < len(recv(cudLs)) && posOf(k) < range_i + 1))
//@     invariant forall(k, counter, len(recv(cudLs)), implies(posOf(k) < range_i + 1, outputMap[k] == recv(cudLs)[posOf(k)]))
//@     invariant forall(k, 0, counter, posOf(k) < range_i + 1)
//@     invariant !failed(w) && len(sent(cErr)) == 0 && len(sent(cWriteDone)) == 0
//@     invariant len(written(w)) == 1 + counter
//@     decreases len(recv(cudLs)) - counter
//@   loop 3:
//@     invariant 0 <= i && i % 2 == 0 && len(ambstrings) * 2 == i && i <= len(udLine.ambs) && len(udLine.ambs) % 2 == 0
//@     invariant forall(m, 0, len(ambstrings), ambstrings[m] == ite(udLine.ambs[2*m] == udLine.ambs[2*m+1], itoa(udLine.ambs[2*m]), itoa(udLine.ambs[2*m]) + "-" + itoa(udLine.ambs[2*m+1])))
//@     invariant 0 <= counter && counter < len(recv(cudLs)) && udLine == recv(cudLs)[posOf(counter)]
//@   before call:Write#2: assert [order] udLine == recv(cudLs)[posOf(counter)] && len(ambstrings) * 2 == len(udLine.ambs)
//@   after call:Write#2: assert [row] written(w)[len(written(w))-1] == udLine.id + "," + join(udLine.snps, "|") + "," + join(ambstrings, "|") + "," + itoa(udLine.snpCount) + "," + itoa(udLine.ambCount) + "\n"
//@   ensures [c19.reported] implies(failed(w), len(sent(cErr)) >= 1 && len(sent(cWriteDone)) == 0)
//@   ensures [c12.done] implies(!failed(w), len(sent(cErr)) == 0 && len(sent(cWriteDone)) == 1 && len(written(w)) == 1 + len(recv(cudLs)))

//@ # C10: one pass over the columns. Ghost = the specification's run-length state: gAmb (inside a run of non-A/C/G/T
//@ # columns), gStart (its first column, 0-based), gRuns (runs closed so far), gLastEnd (1-based end of the last closed run).
//@ # SNP list entries are pinned through count() exactly as in snps.getSNPs; ambiguity ranges are asserted at the point
//@ # where each pair is appended: it is a maximal run (bounded by resolved columns or the sequence ends), 1-based inclusive,
//@ # strictly after the previous range with at least one resolved column in between.
//@ spec resolved(b byte) bool = (b & 8) == 8
//@ func getLines
//@   modifies cUDs, cErr
//@   ghost gAmb bool = false
//@   ghost gStart int = 0
//@   ghost gRuns int = 0
//@   ghost gLastEnd int = 0
//@   loop 1:
//@     invariant len(sent(cUDs)) == range_i
//@     invariant forall(t, 0, range_i, sent(cUDs)[t].idx == recv(cFR)[t].Idx && sent(cUDs)[t].id == recv(cFR)[t].ID && len(sent(cUDs)[t].ambs) % 2 == 0)
//@     invariant implies(exists(t, 0, range_i, len(recv(cFR)[t].Seq) != len(refSeq)), len(sent(cErr)) >= 1)
//@     do-start gAmb = false; gStart = 0; gRuns = 0; gLastEnd = 0
//@   loop 2:
//@     invariant len(sent(cUDs)) == range_i1
//@     invariant cont == gAmb && len(ambs) == 2 * gRuns && gRuns >= 0 && 0 <= gLastEnd && implies(gRuns > 0, gLastEnd < i)
//@     invariant implies(cont, 0 <= gStart && gStart < i && amb_start == gStart && amb_stop == i - 1 && forall(k, gStart, i, !resolved(FR.Seq[k])) && (gStart == 0 || resolved(FR.Seq[gStart-1])) && implies(gRuns > 0, gStart + 1 >= gLastEnd + 2))
//@     invariant implies(!cont, i == 0 || resolved(FR.Seq[i-1]))
//@     invariant implies(gRuns > 0, ambs[len(ambs)-1] == gLastEnd)
//@     invariant ambCount == count(k, 0, i, !resolved(FR.Seq[k]))
//@     invariant snpCount == count(k, 0, i, resolved(FR.Seq[k]) && (refSeq[k] & FR.Seq[k]) < 16) && len(snps) == snpCount && len(snpPos) == snpCount
//@     invariant forall(j, 0, i, implies(resolved(FR.Seq[j]) && (refSeq[j] & FR.Seq[j]) < 16, snps[count(k, 0, j, resolved(FR.Seq[k]) && (refSeq[k] & FR.Seq[k]) < 16)] == DA[refSeq[j]] + itoa(j+1) + DA[FR.Seq[j]]))
//@     invariant forall(j, 0, i, implies(resolved(FR.Seq[j]) && (refSeq[j] & FR.Seq[j]) < 16, snpPos[count(k, 0, j, resolved(FR.Seq[k]) && (refSeq[k] & FR.Seq[k]) < 16)] == j+1))
//@     do-end if !resolved(FR.Seq[i]) { if !gAmb { gAmb = true; gStart = i } } else { if gAmb { gAmb = false; gRuns++; gLastEnd = i } }
//@   after append#4: assert [range.mid] gAmb && ambs[len(ambs)-2] == gStart + 1 && ambs[len(ambs)-1] == i && resolved(FR.Seq[i]) && forall(k, gStart, i, !resolved(FR.Seq[k])) && (gStart == 0 || resolved(FR.Seq[gStart-1])) && implies(gRuns > 0, gStart + 1 >= gLastEnd + 2)
//@   after append#6: assert [range.end] gAmb && ambs[len(ambs)-2] == gStart + 1 && ambs[len(ambs)-1] == len(FR.Seq) && forall(k, gStart, len(FR.Seq), !resolved(FR.Seq[k])) && (gStart == 0 || resolved(FR.Seq[gStart-1]))
//@   before send#2: assert [line.counts] udLine.snpCount == count(k, 0, len(FR.Seq), resolved(FR.Seq[k]) && (refSeq[k] & FR.Seq[k]) < 16) && udLine.ambCount == count(k, 0, len(FR.Seq), !resolved(FR.Seq[k])) && len(udLine.snps) == udLine.snpCount && len(udLine.snpsPos) == udLine.snpCount && len(udLine.ambs) == 2 * ite(gAmb, gRuns + 1, gRuns)
//@   before send#2: assert [line.snps] forall(j, 0, len(FR.Seq), implies(resolved(FR.Seq[j]) && (refSeq[j] & FR.Seq[j]) < 16, udLine.snps[count(k, 0, j, resolved(FR.Seq[k]) && (refSeq[k] & FR.Seq[k]) < 16)] == DA[refSeq[j]] + itoa(j+1) + DA[FR.Seq[j]] && udLine.snpsPos[count(k, 0, j, resolved(FR.Seq[k]) && (refSeq[k] & FR.Seq[k]) < 16)] == j+1))
//@   ensures len(sent(cUDs)) == len(recv(cFR))
//@   ensures [c18.width] implies(exists(t, 0, len(recv(cFR)), len(recv(cFR)[t].Seq) != len(refSeq)), len(sent(cErr)) >= 1)

//@ # C09: CSV input path
//@ func headerEqual
//@   loop 1:
//@     invariant forall(j, 0, i, a[j] == b[j])
//@   ensures result == (len(a) == len(b) && forall(j, 0, len(a), a[j] == b[j]))

//@ func getAmbArr
//@   loop 1:
//@     invariant len(A) == 2 * range_i
//@   ensures implies(result2 == nil, len(result1) % 2 == 0)

//@ func readCSVToUDLList
//@   loop 1:
//@     invariant header == (linepos(r) == 0)
//@     invariant counter == len(LudL)
//@     invariant implies(!header, len(lines(r)[0]) == 5)
//@     invariant implies(!header, counter == linepos(r) - 1) && implies(header, counter == 0)
//@     invariant forall(t, 0, len(LudL), LudL[t].idx == t)
//@   loop 2:
//@     invariant len(snpPos) == len(snps) && disjoint(snpPos, LudL) && forall(t, 0, len(LudL), LudL[t].idx == t)
//@   ensures [rows] implies(result2 == nil, len(result1) == len(lines(r)) - 1 && forall(t, 0, len(result1), result1[t].idx == t))
//@   ensures [c18.empty] implies(len(lines(r)) == 0, result2 != nil)

//@ func readCSVToUDLChan
//@   modifies cudL, cErr, cReadDone
//@   loop 1:
//@     invariant header == (linepos(r) == 0)
//@     invariant implies(!header, len(lines(r)[0]) == 5)
//@     invariant len(sent(cErr)) == 0 && len(sent(cReadDone)) == 0
//@   loop 2:
//@     invariant len(sent(cErr)) == 0 && len(sent(cReadDone)) == 0 && len(snpPos) == len(snps)
//@   ensures [c18.exclusive] len(sent(cErr)) + len(sent(cReadDone)) == 1
//@   ensures [c18.empty] implies(len(lines(r)) == 0, len(sent(cErr)) == 1)

//@ # C09/C12: restoring file order after parallel conversion. For every arrival order the output is the input sorted by idx.
//@ func reorderRecords
//@   modifies cOut, cReorderDone
//@   requires forall(k, 0, len(recv(cIn)), 0 <= posOf(k) && posOf(k) < len(recv(cIn)) && recv(cIn)[posOf(k)].idx == k)
//@   requires forall(a, 0, len(recv(cIn)), 0 <= recv(cIn)[a].idx && recv(cIn)[a].idx < len(recv(cIn)) && posOf(recv(cIn)[a].idx) == a)
//@   loop 1:
//@     invariant 0 <= counter && counter <= range_i && len(reorderMap) == range_i - counter && len(sent(cOut)) == counter && len(sent(cReorderDone)) == 0
//@     invariant forallint(k, in(reorderMap, k) == (counter <= k && k < len(recv(cIn)) && posOf(k) < range_i))
//@     invariant forall(k, counter, len(recv(cIn)), implies(posOf(k) < range_i, reorderMap[k] == recv(cIn)[posOf(k)]))
//@     invariant forall(k, 0, counter, posOf(k) < range_i && sent(cOut)[k] == recv(cIn)[posOf(k)])
//@   loop 2:
//@     invariant 0 <= counter && counter <= len(recv(cIn)) && len(reorderMap) == len(recv(cIn)) - counter && len(sent(cOut)) == counter && len(sent(cReorderDone)) == 0 && n == 1
//@     invariant forallint(k, in(reorderMap, k) == (counter <= k && k < len(recv(cIn))))
//@     invariant forall(k, counter, len(recv(cIn)), reorderMap[k] == recv(cIn)[posOf(k)])
//@     invariant forall(k, 0, counter, sent(cOut)[k] == recv(cIn)[posOf(k)])
//@     decreases len(recv(cIn)) - counter
//@   ensures [c12.order] len(sent(cOut)) == len(recv(cIn)) && forall(k, 0, len(recv(cIn)), sent(cOut)[k] == recv(cIn)[posOf(k)] && sent(cOut)[k].idx == k)
//@   ensures [done] len(sent(cReorderDone)) == 1
