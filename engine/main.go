package main

import (
	"flag"
	"fmt"
	"os"
	"path/filepath"
	"sort"
	"strings"
	"time"
)

func scratchDir() string {
	home, _ := os.UserHomeDir()
	d := filepath.Join(home, ".cache", "gfverify-scratch", fmt.Sprintf("%d", os.Getpid()))
	os.MkdirAll(d, 0o755)
	return d
}

func main() {
	if len(os.Args) < 2 {
		fmt.Fprintln(os.Stderr, "usage: gfverify check|verify|dump|lock|selftest|replay …")
		os.Exit(2)
	}
	switch os.Args[1] {
	case "verify":
		cmdVerify(os.Args[2:])
	case "dump":
		cmdDump(os.Args[2:])
	case "check":
		cmdCheck(os.Args[2:])
	case "lock":
		cmdLock(os.Args[2:])
	case "locals":
		cmdLocals(os.Args[2:])
	case "renamelocals":
		cmdRenameLocals(os.Args[2:])
	case "replay":
		cmdReplay(os.Args[2:])
	case "selftest":
		cmdSelftest(os.Args[2:])
	default:
		fmt.Fprintln(os.Stderr, "unknown command", os.Args[1])
		os.Exit(2)
	}
}

func envOr(k, d string) string {
	if v := os.Getenv(k); v != "" {
		return v
	}
	return d
}

// cmdVerify: developer command – verify the named functions and print every obligation.
func cmdVerify(args []string) {
	fs := flag.NewFlagSet("verify", flag.ExitOnError)
	repo := fs.String("repo", envOr("GFV_REPO", "/repo"), "repository")
	vdir := fs.String("verif", envOr("GFV_VERIF", "/verif"), "verif dir")
	timeout := fs.Int("timeout", 10, "per-obligation timeout (s)")
	verbose := fs.Bool("v", false, "print models")
	fs.Parse(args)
	g, err := loadAll(*repo, *vdir)
	if err != nil {
		fmt.Fprintln(os.Stderr, "load:", err)
		os.Exit(2)
	}
	scratch := scratchDir()
	defer os.RemoveAll(scratch)
	keys := fs.Args()
	if len(keys) == 1 && keys[0] == "all" {
		keys = nil
		for k := range g.cs.Funcs {
			keys = append(keys, k)
		}
		sort.Strings(keys)
	}
	bad := 0
	for _, k := range keys {
		start := time.Now()
		res := g.verifyFunc(k)
		if res.Trusted {
			fmt.Printf("== %s: trusted contract (not verified)\n", k)
			continue
		}
		dischargeAll(res.Obligations, scratch, time.Duration(*timeout)*time.Second)
		fmt.Printf("== %s: %d obligations, %.1fs", k, len(res.Obligations), time.Since(start).Seconds())
		if res.OutsideSubset != "" {
			fmt.Printf("  OUTSIDE SUBSET: %s", res.OutsideSubset)
		}
		fmt.Println()
		if *verbose && res.Ctx != nil {
			for _, k := range sortedKeys(res.Ctx.notes) {
				fmt.Println("  note:", k)
			}
		}
		for _, o := range res.Obligations {
			mark := "ok  "
			if !o.ok() {
				mark = "FAIL"
				bad++
			}
			fmt.Printf("  %s %-60s %-10s %-10s %5dms  %s\n", mark, strings.TrimPrefix(o.Name, k+"/"), o.Status, o.Backend, o.Ms, o.Where)
			if !o.ok() && *verbose {
				fmt.Println("      goal:", o.Human)
				if o.Model != "" {
					fmt.Println(indent(summariseModel(o.Model), "      "))
				}
			}
		}
	}
	if bad > 0 {
		os.Exit(1)
	}
}

func (o *Obligation) ok() bool {
	return o.Status == "unsat" || o.Status == "ok-sat" || o.Status == "ok-unknown"
}

func indent(s, p string) string {
	return p + strings.ReplaceAll(s, "\n", "\n"+p)
}

func cmdDump(args []string) {
	fs := flag.NewFlagSet("dump", flag.ExitOnError)
	repo := fs.String("repo", envOr("GFV_REPO", "/repo"), "repository")
	vdir := fs.String("verif", envOr("GFV_VERIF", "/verif"), "verif dir")
	fs.Parse(args)
	g, err := loadAll(*repo, *vdir)
	if err != nil {
		fmt.Fprintln(os.Stderr, "load:", err)
		os.Exit(2)
	}
	res := g.verifyFunc(fs.Arg(0))
	if res.OutsideSubset != "" {
		fmt.Fprintln(os.Stderr, "outside subset:", res.OutsideSubset)
	}
	for _, o := range res.Obligations {
		if fs.NArg() < 2 || strings.HasSuffix(o.Name, fs.Arg(1)) {
			fmt.Printf("; ---- %s  (%s) %s\n", o.Name, o.Where, o.Human)
			if fs.NArg() >= 2 {
				fmt.Println(o.buildQuery(true))
			}
		}
	}
}

// summariseModel keeps the interesting lines of a solver model (parameters).
func summariseModel(m string) string {
	var out []string
	lines := strings.Split(m, "\n")
	for i := 0; i < len(lines); i++ {
		ln := lines[i]
		if strings.Contains(ln, "define-fun p_") || strings.Contains(ln, "define-fun H0_") || strings.Contains(ln, "define-fun c!") || strings.Contains(ln, "define-fun d!") || strings.Contains(ln, "!sk") {
			blk := ln
			depth := strings.Count(ln, "(") - strings.Count(ln, ")")
			for depth > 0 && i+1 < len(lines) {
				i++
				blk += " " + strings.TrimSpace(lines[i])
				depth += strings.Count(lines[i], "(") - strings.Count(lines[i], ")")
			}
			if len(blk) > 400 {
				blk = blk[:400] + " …"
			}
			out = append(out, blk)
		}
	}
	return strings.Join(out, "\n")
}
