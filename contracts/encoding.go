//go:build verif

package encoding

//@ # The table builders are straight-line code after a zeroing loop; they are marked inline so that callers and lemmas
//@ # see the actual table contents (symbolic execution of the real body), not a hand-written copy of them.
//@ func MakeEncodingArray inline
//@   loop 1:
//@     invariant forallb(c, byteArray[c] == 0)
//@ func MakeEncodingArrayHardGaps inline
//@   loop 1:
//@     invariant forallb(c, byteArray[c] == 0)
//@ func MakeDecodingArray inline
//@   loop 1:
//@     invariant forallb(c, byteArray[c] == "")
//@ func MakeEncodedScoreArray inline
//@   loop 1:
//@     invariant forallb(c, byteArray[c] == 0)
//@ func MakeScoreArray inline
//@   loop 1:
//@     invariant forallb(c, byteArray[c] == 0)

//@ # C03/C07 L1: the bitwise test used everywhere, (a & b) < 16, is exactly disjointness of the denoted base sets.
//@ lemma EA_accepts [C03,C16]: forallb(c, accepted(c) == (MakeEncodingArray()[c] != 0))
//@ lemma EA_disjoint [C03,C07]: forallb(c, forallb(d, implies(accepted(c) && accepted(d), ((MakeEncodingArray()[c] & MakeEncodingArray()[d]) < 16) == ((bases(c) & bases(d)) == 0))))
//@ lemma EAH_accepts [C03,C16]: forallb(c, accepted(c) == (MakeEncodingArrayHardGaps()[c] != 0))
//@ lemma EAH_disjoint [C03]: forallb(c, forallb(d, implies(accepted(c) && accepted(d), ((MakeEncodingArrayHardGaps()[c] & MakeEncodingArrayHardGaps()[d]) < 16) == ((basesHard(c) & basesHard(d)) == 0))))
//@ # L2: letter case never matters
//@ lemma EA_case [C03,C16]: forallb(c, MakeEncodingArray()[c] == MakeEncodingArray()[upper(c)] && MakeEncodingArrayHardGaps()[c] == MakeEncodingArrayHardGaps()[upper(c)])
//@ # L3: decoding an encoded symbol gives the (upper-case) symbol back, in both gap modes
//@ lemma DA_roundtrip [C03,C16]: forallb(c, implies(accepted(c), MakeDecodingArray()[MakeEncodingArray()[c]] == symstr(upper(c)) && MakeDecodingArray()[MakeEncodingArrayHardGaps()[c]] == symstr(upper(c))))
//@ # C07: "resolved" (a & 8 == 8) means exactly A/C/G/T; on resolved symbols a|b == 200 is {A,G} and a|b == 56 is {C,T}
//@ lemma EA_gap [C11]: forallb(c, (MakeEncodingArray()[c] == 244) == (c == '-'))
//@ lemma EA_resolved [C07,C10,C08]: forallb(c, implies(accepted(c), ((MakeEncodingArray()[c] & 8) == 8) == isACGT(c)))
//@ lemma EA_same [C07]: forallb(c, forallb(d, implies(isACGT(c) && isACGT(d), (MakeEncodingArray()[c] == MakeEncodingArray()[d]) == (upper(c) == upper(d)))))
//@ lemma EA_purine [C07]: forallb(c, forallb(d, implies(isACGT(c) && isACGT(d) && upper(c) != upper(d), ((MakeEncodingArray()[c] | MakeEncodingArray()[d]) == 200) == ((upper(c) == 'A' && upper(d) == 'G') || (upper(c) == 'G' && upper(d) == 'A')))))
//@ lemma EA_pyrimidine [C07]: forallb(c, forallb(d, implies(isACGT(c) && isACGT(d) && upper(c) != upper(d), ((MakeEncodingArray()[c] | MakeEncodingArray()[d]) == 56) == ((upper(c) == 'C' && upper(d) == 'T') || (upper(c) == 'T' && upper(d) == 'C')))))
//@ # C06/C16: completeness score = 12 / number of denoted bases, indexed by the encoded symbol
//@ lemma score_encoded [C16,C06]: forallb(c, implies(accepted(c), MakeEncodedScoreArray()[MakeEncodingArray()[c]] == MakeScoreArray()[c]))
//@ # the readers only ever produce images of accepted characters: the 17 soft codes plus 4 (hard gap)
//@ lemma codes_image [C07,C16]: forallb(c, implies(accepted(c), isCode(MakeEncodingArray()[c]) && isCode(MakeEncodingArrayHardGaps()[c])))
//@ # symmetry of the per-column tests (so snp and raw are symmetric in their arguments)
//@ lemma col_symmetric [C07]: forallb(a, forallb(b, ((a & b) < 16) == ((b & a) < 16) && (((a & 8) == 8 && a == b) == ((b & 8) == 8 && b == a))))
