// gfv:dir pkg/variants
//
// Bounded check for C14 (from the property statement): the same coding feature described as a GenBank CDS (location
// a..b, join(...), complement(a..b), complement(join(...)), join(complement(...),...); /codon_start) and as the
// equivalent GFF3 CDS rows sharing an ID (strand; conformant phases: the phase of a row is the number of bases to skip
// at its 5' end to reach the next codon start) must give the same region: positions in translation order, strand,
// start, stop, name. Exercises the REAL genbank location parser, which the contracts do not reach.
package variants

import (
	"encoding/json"
	"fmt"
	"os"
	"strings"
	"testing"

	"github.com/virus-evolution/gofasta/pkg/genbank"
	"github.com/virus-evolution/gofasta/pkg/gff"
)

type verifRegIn struct {
	Segs       [][2]int `json:"segs"` // ascending genomic order, 1-based inclusive
	Reverse    bool     `json:"reverse"`
	CodonStart int      `json:"codon_start"`
	Form       int      `json:"form"` // reverse multi-segment: 0 = complement(join(..)), 1 = join(complement(..),..)
}

const verifRefLen = 60

func verifRef() string {
	return strings.Repeat("ATGGCTAAACGT", verifRefLen/12) // no stop codons in any frame of either strand? not needed: Translate accepts stops
}

func verifLocation(in verifRegIn) string {
	var parts []string
	for _, s := range in.Segs {
		parts = append(parts, fmt.Sprintf("%d..%d", s[0], s[1]))
	}
	if !in.Reverse {
		if len(parts) == 1 {
			return parts[0]
		}
		return "join(" + strings.Join(parts, ",") + ")"
	}
	if len(parts) == 1 {
		return "complement(" + parts[0] + ")"
	}
	if in.Form == 0 {
		return "complement(join(" + strings.Join(parts, ",") + "))"
	}
	var rev []string
	for i := len(parts) - 1; i >= 0; i-- {
		rev = append(rev, "complement("+parts[i]+")")
	}
	return "join(" + strings.Join(rev, ",") + ")"
}

// expected positions in translation order, from the property statement alone
func verifExpected(in verifRegIn) []int {
	var p []int
	if !in.Reverse {
		for _, s := range in.Segs {
			for i := s[0]; i <= s[1]; i++ {
				p = append(p, i)
			}
		}
	} else {
		for k := len(in.Segs) - 1; k >= 0; k-- {
			for i := in.Segs[k][1]; i >= in.Segs[k][0]; i-- {
				p = append(p, i)
			}
		}
	}
	return p[in.CodonStart-1:]
}

func verifRows(in verifRegIn) []gff.Feature {
	n := len(in.Segs)
	rows := make([]gff.Feature, n)
	strand := "+"
	if in.Reverse {
		strand = "-"
	}
	// walk the rows in translation order assigning conformant phases
	done := 0 // coding bases consumed before this row, counted from the first codon's first base
	order := make([]int, 0, n)
	if !in.Reverse {
		for k := 0; k < n; k++ {
			order = append(order, k)
		}
	} else {
		for k := n - 1; k >= 0; k-- {
			order = append(order, k)
		}
	}
	for idx, k := range order {
		l := in.Segs[k][1] - in.Segs[k][0] + 1
		phase := 0
		if idx == 0 {
			phase = in.CodonStart - 1
			done = l - phase
		} else {
			phase = (3 - done%3) % 3
			done += l
		}
		rows[k] = gff.Feature{Seqid: "ref", Type: "CDS", Start: in.Segs[k][0], End: in.Segs[k][1], Strand: strand, Phase: phase,
			Attributes: map[string][]string{"ID": {"cds1"}, "Name": {"geneX"}}}
	}
	return rows
}

func verifRegCheck(in verifRegIn) (bool, string) {
	want := verifExpected(in)
	if len(want) == 0 || len(want)%3 != 0 {
		return true, "" // not a valid CDS: out of scope
	}
	loc := verifLocation(in)
	gbf := genbank.GenbankFeature{Feature: "CDS", Location: genbank.Location{Representation: loc},
		Info: map[string]string{"gene": "geneX", "codon_start": fmt.Sprint(in.CodonStart), "translation": strings.Repeat("A", len(want)/3-1)}}
	rg, err := CDSRegion2fromGenbank(gbf)
	if err != nil {
		return false, fmt.Sprintf("GenBank CDS %s /codon_start=%d is refused: %v", loc, in.CodonStart, err)
	}
	rows := verifRows(in)
	rf, err := CDSRegion2fromGFF(rows, verifRef())
	desc := func() string {
		var s []string
		for _, r := range rows {
			s = append(s, fmt.Sprintf("%d-%d%s phase %d", r.Start, r.End, r.Strand, r.Phase))
		}
		return strings.Join(s, "; ")
	}
	if err != nil {
		return false, fmt.Sprintf("the GFF rows [%s] equivalent to %s /codon_start=%d are refused: %v", desc(), loc, in.CodonStart, err)
	}
	if fmt.Sprint(rg.Positions) != fmt.Sprint(want) {
		return false, fmt.Sprintf("GenBank %s /codon_start=%d gives positions %v, expected %v", loc, in.CodonStart, rg.Positions, want)
	}
	if fmt.Sprint(rf.Positions) != fmt.Sprint(want) {
		return false, fmt.Sprintf("GFF rows [%s] give positions %v; the equivalent GenBank location %s /codon_start=%d gives %v", desc(), rf.Positions, loc, in.CodonStart, rg.Positions)
	}
	if rg.Strand != rf.Strand || rg.Start != rf.Start || rg.Stop != rf.Stop || rg.Name != rf.Name {
		return false, fmt.Sprintf("strand/start/stop/name differ: GenBank %d/%d/%d/%s, GFF %d/%d/%d/%s", rg.Strand, rg.Start, rg.Stop, rg.Name, rf.Strand, rf.Start, rf.Stop, rf.Name)
	}
	if 3*len(rf.Translation) != len(rf.Positions) {
		return false, "GFF translation length is not a third of the positions"
	}
	return true, ""
}

func TestVerifOracle(t *testing.T) {
	report := func(in verifRegIn, detail string) {
		b, _ := json.Marshal(map[string]interface{}{"input": in, "detail": detail})
		fmt.Println("GFV-FAIL " + string(b))
	}
	if s := os.Getenv("GFV_INPUT"); s != "" {
		var in verifRegIn
		if err := json.Unmarshal([]byte(s), &in); err != nil {
			t.Fatal(err)
		}
		if ok, d := verifRegCheck(in); !ok {
			report(in, d)
		}
		return
	}
	n, valid := 0, 0
	try := func(in verifRegIn) bool {
		n++
		w := verifExpected(in)
		if len(w) > 0 && len(w)%3 == 0 {
			valid++
		}
		if ok, d := verifRegCheck(in); !ok {
			report(in, d)
			return false
		}
		return true
	}
	grid := []int{1, 2, 4, 5, 9, 10, 14, 15, 16, 20, 24, 27, 30}
	for _, rev := range []bool{false, true} {
		for cs := 1; cs <= 3; cs++ {
			// one segment
			for _, a := range grid {
				for _, b := range grid {
					if a+2 <= b {
						if !try(verifRegIn{[][2]int{{a, b}}, rev, cs, 0}) {
							return
						}
					}
				}
			}
			// two and three segments
			for ia := 0; ia < len(grid); ia++ {
				for ib := ia; ib < len(grid); ib++ {
					for ic := ib + 1; ic < len(grid); ic++ {
						for id := ic; id < len(grid); id++ {
							a, b, c, d := grid[ia], grid[ib], grid[ic], grid[id]
							if b-a+1 < 3 || d-c+1 < 3 || c <= b {
								continue
							}
							for form := 0; form < 2; form++ {
								if !try(verifRegIn{[][2]int{{a, b}, {c, d}}, rev, cs, form}) {
									return
								}
								if d+7 <= 40 {
									if !try(verifRegIn{[][2]int{{a, b}, {c, d}, {d + 2, d + 7}}, rev, cs, form}) {
										return
									}
								}
							}
						}
					}
				}
			}
		}
	}
	fmt.Printf("GFV-DONE %d (%d valid CDS: forward/reverse, 1..3 segments on a 13-point grid within 1..40, codon_start 1..3, both reverse-join spellings)\n", n, valid)
}
