package main

import (
	"encoding/json"
	"flag"
	"fmt"
	"go/ast"
	"go/types"
	"os"
	"path/filepath"
	"regexp"
	"sort"
	"strconv"
	"strings"
	"time"
)

type PropSpec struct {
	Functions []string `json:"functions"`
	Bounded   []struct {
		Name  string `json:"name"`
		What  string `json:"what"`
		Bound string `json:"bound"`
	} `json:"bounded"`
	Notes       []string          `json:"notes"`
	Assumptions []string          `json:"assumptions"`
	Oracles     map[string]string `json:"oracles"` // function key -> replay oracle name
}

type Finding struct {
	Kind         string          `json:"kind"` // finding | fixed
	Property     string          `json:"property"`
	Obligation   string          `json:"obligation"`
	What         string          `json:"what"`
	Witness      string          `json:"witness"`
	Commit       string          `json:"commit,omitempty"`
	Oracle       string          `json:"oracle,omitempty"`
	WitnessInput json.RawMessage `json:"witness_input,omitempty"`
}

func readJSON(path string, v interface{}) error {
	b, err := os.ReadFile(path)
	if err != nil {
		return err
	}
	return json.Unmarshal(b, v)
}

type checkRun struct {
	g              *Global
	prop           string
	tier           string
	seed           int64
	spec           PropSpec
	results        []*FuncResult
	obligs         []*Obligation
	scratch        string
	vdir           string
	repo           string
	oracleCache    map[string]oracleResult
	boundedResults []map[string]string
}

func cmdCheck(args []string) {
	fs := flag.NewFlagSet("check", flag.ExitOnError)
	repo := fs.String("repo", envOr("GFV_REPO", "/repo"), "repository")
	vdir := fs.String("verif", envOr("GFV_VERIF", "/verif"), "verif dir")
	prop := fs.String("property", "", "property id")
	tier := fs.String("tier", envOr("VERIF_TIER", "quick"), "quick|thorough")
	noEvidence := fs.Bool("no-evidence", false, "do not write the evidence file (selftest)")
	quiet := fs.Bool("q", false, "less output")
	fs.Parse(args)
	seed, _ := strconv.ParseInt(envOr("VERIF_SEED", "0"), 10, 64)
	start := time.Now()
	code := runCheck(*repo, *vdir, *prop, *tier, seed, !*noEvidence, *quiet, start)
	os.Exit(code)
}

func runCheck(repo, vdir, prop, tier string, seed int64, writeEvidence bool, quiet bool, start time.Time) int {
	var props map[string]PropSpec
	if err := readJSON(filepath.Join(vdir, "props.json"), &props); err != nil {
		fmt.Fprintln(os.Stderr, "engine error:", err)
		return 2
	}
	spec, ok := props[prop]
	if !ok {
		fmt.Fprintln(os.Stderr, "engine error: unknown property", prop)
		return 2
	}
	var lock map[string][]string
	readJSON(filepath.Join(vdir, "obligations.lock.json"), &lock)
	var findings []Finding
	readJSON(filepath.Join(vdir, "known_findings.json"), &findings)

	g, err := loadAll(repo, vdir)
	if err != nil {
		// a tree that does not load is not a property violation; report as engine error
		fmt.Fprintln(os.Stderr, "engine error: cannot load the working tree:", err)
		return 2
	}
	scratch := scratchDir()
	defer os.RemoveAll(scratch)
	timeout := 20 * time.Second
	if tier == "thorough" {
		timeout = 60 * time.Second
	}
	cr := &checkRun{g: g, prop: prop, tier: tier, seed: seed, spec: spec, scratch: scratch, vdir: vdir, repo: repo}
	var all []*Obligation
	for _, k := range spec.Functions {
		res := g.verifyFunc(k)
		cr.results = append(cr.results, res)
		all = append(all, res.Obligations...)
	}
	// obligations recorded as unclaimed when the lock was written are known not to discharge: a short limit in the quick tier
	if tier == "quick" {
		for _, o := range all {
			for _, n := range lock["unclaimed:"+prop] {
				if o.Name == n {
					o.TimeoutOverride = 3 * time.Second
				}
			}
		}
	}
	dischargeAll(all, scratch, timeout)
	cr.obligs = all

	byName := map[string]*Obligation{}
	for _, o := range all {
		byName[o.Name] = o
	}
	locked := map[string]bool{}
	for _, n := range lock[prop] {
		locked[n] = true
	}
	unclaimed := map[string]bool{}
	for _, n := range lock["unclaimed:"+prop] {
		unclaimed[n] = true
	}
	var vanished []string
	findingFor := func(name string) *Finding {
		for i := range findings {
			f := &findings[i]
			if f.Kind == "finding" && f.Property == prop && f.Obligation == name {
				return f
			}
		}
		return nil
	}
	replayDir := filepath.Join(vdir, "replay")
	os.MkdirAll(replayDir, 0o755)
	violations := 0
	var violationLines []string
	var knownLines []string
	var unlockedUndecided []string
	report := func(name string, o *Obligation, reason string) {
		// known finding?
		if f := findingFor(name); f != nil {
			knownLines = append(knownLines, fmt.Sprintf("KNOWN-FINDING: property=%s %s: %s (witness: %s)", prop, name, f.What, f.Witness))
			return
		}
		violations++
		path, found := cr.writeReplay(name, o, reason)
		line := fmt.Sprintf("VIOLATION property=%s replay=%s", prop, path)
		if !found {
			line += " no-failing-input-found"
		}
		violationLines = append(violationLines, line)
		if !quiet {
			fmt.Printf("  failed obligation %s: %s\n", name, reason)
		}
	}
	// 1. every locked obligation must be generated and discharged
	var lockedNames []string
	for n := range locked {
		lockedNames = append(lockedNames, n)
	}
	sort.Strings(lockedNames)
	outside := map[string]string{}
	for _, r := range cr.results {
		if r.OutsideSubset != "" {
			outside[r.Key] = r.OutsideSubset
		}
	}
	for _, n := range lockedNames {
		o, ok := byName[n]
		if !ok {
			fn := n
			if i := strings.Index(n, "/"); i >= 0 {
				fn = n[:i]
			}
			reason := "locked obligation is no longer generated from the working tree"
			if msg, ok := outside[fn]; ok {
				reason = "function left the verified subset (" + msg + "); its locked obligation can no longer be generated"
			} else if siteDerived(n) {
				// the program point this obligation belonged to (an index expression, a call, an allocation) is gone or
				// renumbered: nothing is left to prove for it; whatever the changed code generates instead is checked under 2.
				vanished = append(vanished, n)
				continue
			}
			report(n, nil, reason)
			continue
		}
		if !o.ok() {
			report(n, o, fmt.Sprintf("not discharged (%s): %s", o.Status, o.Human))
		}
	}
	// 2. obligations that are not locked: known findings are reported as such; others only listed
	for _, o := range all {
		if locked[o.Name] || o.ok() {
			continue
		}
		if f := findingFor(o.Name); f != nil {
			knownLines = append(knownLines, fmt.Sprintf("KNOWN-FINDING: property=%s %s: %s (witness: %s)", prop, o.Name, f.What, f.Witness))
			continue
		}
		if !o.Vacuity && !unclaimed[o.Name] {
			// neither claimed nor recorded as unclaimed when the lock was written: an obligation the current code generates
			// (changed code: a new call's precondition, a new index expression, …) that the verifier cannot discharge
			report(o.Name, o, fmt.Sprintf("obligation generated from changed code is not discharged (%s): %s", o.Status, o.Human))
			continue
		}
		unlockedUndecided = append(unlockedUndecided, o.Name+" ("+o.Status+")")
	}
	if len(vanished) > 0 && !quiet {
		fmt.Printf("  note: %d locked site-derived obligations are no longer generated (code shape changed), e.g. %s\n", len(vanished), vanished[0])
	}
	// vacuity: a contradictory precondition set is an engine/contract error surfaced as a violation of the check itself
	for _, o := range all {
		if o.Vacuity && o.Status == "vacuous" {
			report(o.Name, o, "preconditions are unsatisfiable (vacuous contract)")
		}
	}
	// bounded stand-ins: functions outside the verifier's reach are exercised on the real code by an oracle with a stated
	// bound; never counted as proved, but a failing input is a violation with a replay
	boundedList := spec.Bounded
	if tier == "thorough" {
		// thorough: every replay oracle of the property is also run as a differential check of the real code against
		// the property statement (bounded, labelled so, never counted as proved)
		have := map[string]bool{}
		for _, b := range boundedList {
			have[b.Name] = true
		}
		var extra []string
		for _, o := range spec.Oracles {
			if !have[o] {
				have[o] = true
				extra = append(extra, o)
			}
		}
		sort.Strings(extra)
		for _, o := range extra {
			boundedList = append(boundedList, struct {
				Name  string `json:"name"`
				What  string `json:"what"`
				Bound string `json:"bound"`
			}{Name: o, What: "thorough tier: the property's replay oracle run over its whole enumeration (real functions against the property statement)", Bound: "the enumeration reported in result, within a 60 s budget"})
		}
	}
	for _, b := range boundedList {
		budget := 8 * time.Second
		if tier == "thorough" {
			budget = 60 * time.Second
		}
		r := runOracle(repo, vdir, b.Name, "", budget, seed)
		res := map[string]string{"oracle": b.Name, "what": b.What, "bound": b.Bound, "label": "bounded (not counted as proved)"}
		if r.Found {
			violations++
			path := filepath.Join(vdir, "replay", sanitize(prop+"_bounded_"+b.Name)+".json")
			rep := map[string]interface{}{"property": prop, "obligation": "bounded:" + b.Name, "oracle": b.Name, "reason": "bounded check on the real code found a failing input", "failing_input": json.RawMessage(r.Input), "observed": r.Detail, "replay_cmd": "bin/gfverify replay " + path}
			bb, _ := json.MarshalIndent(rep, "", " ")
			os.WriteFile(path, bb, 0o644)
			violationLines = append(violationLines, fmt.Sprintf("VIOLATION property=%s replay=%s", prop, path))
			res["result"] = "FAILED: " + r.Detail
		} else {
			res["result"] = r.Detail
			if strings.HasPrefix(r.Detail, "oracle did not build") || r.Detail == "no failing input found" {
				// the oracle could not run to completion (changed signatures, build failure): say so, do not pretend coverage
				res["result"] = "NOT RUN TO COMPLETION: " + r.Detail
			}
		}
		if !quiet {
			fmt.Printf("  bounded %s: %s\n", b.Name, res["result"])
		}
		cr.boundedResults = append(cr.boundedResults, res)
	}
	if len(all) == 0 {
		fmt.Fprintln(os.Stderr, "engine error: no obligations generated for", prop)
		return 2
	}
	for _, l := range knownLines {
		fmt.Println(l)
	}
	for _, l := range violationLines {
		fmt.Println(l)
	}
	wall := time.Since(start).Seconds()
	if writeEvidence {
		cr.writeEvidence(locked, violations, knownLines, unlockedUndecided, wall)
	}
	nOK := 0
	for _, o := range all {
		if o.ok() {
			nOK++
		}
	}
	if !quiet {
		fmt.Printf("%s %s: %d obligations generated, %d discharged, %d locked, %d violations, %d known findings, %d unlocked-undecided, %.1fs\n",
			prop, tier, len(all), nOK, len(locked), violations, len(knownLines), len(unlockedUndecided), wall)
	}
	if violations > 0 {
		return 1
	}
	return 0
}

// writeReplay writes the replay file for a failed obligation; found reports whether a failing input on the real code was found.
func (cr *checkRun) writeReplay(name string, o *Obligation, reason string) (string, bool) {
	path := filepath.Join(cr.vdir, "replay", sanitize(cr.prop+"_"+name)+".json")
	rep := map[string]interface{}{
		"property":   cr.prop,
		"obligation": name,
		"reason":     reason,
	}
	found := false
	fn := name
	if k := strings.Index(name, "/"); k >= 0 {
		fn = name[:k]
	}
	if o != nil {
		rep["where"] = o.Where
		rep["clause"] = o.Human
		rep["solver_status"] = o.Status
		rep["backend"] = o.Backend
		if o.Model != "" {
			rep["solver_output"] = firstLines(o.Model, 60)
		}
		fn = o.Fn
	}
	// replay on the real code: also when the obligation could not even be generated (function left the subset)
	if oracle, ok := cr.spec.Oracles[fn]; ok {
		input, detail, ok2 := cr.findFailingInput(oracle, o)
		rep["oracle"] = oracle
		if ok2 {
			found = true
			rep["failing_input"] = json.RawMessage(input)
			rep["observed"] = detail
			rep["replay_cmd"] = fmt.Sprintf("bin/gfverify replay %s", path)
		} else {
			rep["search"] = detail
		}
	}
	b, _ := json.MarshalIndent(rep, "", " ")
	os.WriteFile(path, b, 0o644)
	return path, found
}

func (cr *checkRun) writeEvidence(locked map[string]bool, violations int, known []string, unlocked []string, wall float64) {
	type sample struct {
		Name    string `json:"name"`
		Goal    string `json:"goal"`
		Where   string `json:"where"`
		Status  string `json:"status"`
		Backend string `json:"backend"`
		Ms      int64  `json:"ms"`
	}
	perBackend := map[string]int{}
	var solverMs int64
	discharged := 0
	nProof := 0
	genTotal, genOK := 0, 0
	var samples []sample
	trusted := map[string]bool{}
	notes := map[string]bool{}
	unspec := map[string]bool{}
	var outside []string
	var funcs []string
	var trustedFuncs []string
	vacOK := 0
	for _, r := range cr.results {
		if r.Trusted {
			trustedFuncs = append(trustedFuncs, r.Key)
			continue
		}
		funcs = append(funcs, r.Key)
		if r.OutsideSubset != "" {
			outside = append(outside, r.Key+": "+r.OutsideSubset)
		}
		if r.Ctx != nil {
			for k := range r.Ctx.trusted {
				trusted[k] = true
			}
			for k := range r.Ctx.notes {
				notes[k] = true
			}
			for k := range r.Ctx.unspecified {
				unspec[k] = true
			}
		}
	}
	for _, o := range cr.obligs {
		if o.Vacuity {
			if o.ok() {
				vacOK++
			}
			continue
		}
		genTotal++
		if o.ok() {
			genOK++
		}
		solverMs += o.Ms
		if !locked[o.Name] {
			continue // generated but not part of the claim (see unlocked_undecided)
		}
		nProof++
		if o.ok() {
			discharged++
			perBackend[o.Backend]++
		}
		if len(samples) < 6 && o.Backend != "syntactic" && (len(samples) < 3 || !strings.HasPrefix(samples[len(samples)-1].Name, o.Fn)) {
			samples = append(samples, sample{o.Name, o.Human, o.Where, o.Status, o.Backend, o.Ms})
		}
	}
	tb := []string{
		"gfverify VC generator (go/packages + go/types typed AST; forward symbolic execution, loops cut at invariants)",
		"SMT solvers z3 5.1.0, z3 4.8.12, cvc5 1.0 (first definite answer wins)",
		"int modelled as mathematical Int (no overflow), byte as 8-bit vector, float64 as Real+NaN flag (no rounding)",
		"count(k,lo,hi,P) axioms: one-step unfolding plus monotonicity/additivity/strictness consequences (inductive facts stated as axioms)",
	}
	for _, k := range sortedKeys(trusted) {
		tb = append(tb, k)
	}
	for _, f := range trustedFuncs {
		why := ""
		if c := cr.g.cs.Funcs[f]; c != nil {
			why = c.TrustWhy
		}
		tb = append(tb, "assumed (unverified) contract of "+f+": "+why)
	}
	assumptions := append([]string{}, cr.spec.Assumptions...)
	for _, k := range sortedKeys(notes) {
		assumptions = append(assumptions, k)
	}
	for _, k := range sortedKeys(unspec) {
		assumptions = append(assumptions, "unspecified callee (arguments' reachable state havocked): "+k)
	}
	assumptions = append(assumptions, "machine integers treated as mathematical; termination proved only where a decreases clause is given")
	var contractSrc []string
	for p, s := range cr.g.contractSource {
		contractSrc = append(contractSrc, p+": "+s)
	}
	sort.Strings(contractSrc)
	ev := map[string]interface{}{
		"property_id": cr.prop,
		"tier":        cr.tier,
		"seed":        cr.seed,
		"level":       "proof",
		"wall_s":      wall,
		"violations":  violations,
		"coverage": map[string]interface{}{
			"obligations":              nProof,
			"discharged":               discharged,
			"locked":                   len(locked),
			"generated_total":          genTotal,
			"generated_discharged":     genOK,
			"checker_cmd":              fmt.Sprintf("bin/gfverify check --property %s --tier %s", cr.prop, cr.tier),
			"trusted_base":             tb,
			"functions_under_contract": funcs,
			"per_backend":              perBackend,
			"solver_time_s":            float64(solverMs) / 1000.0,
			"bounded":                  cr.boundedResults,
			"outside_subset":           outside,
			"unlocked_undecided":       unlocked,
			"known_findings":           known,
			"vacuity":                  map[string]int{"requires_checked": vacOK},
			"contract_sources":         contractSrc,
			"samples":                  samples,
			"notes":                    cr.spec.Notes,
			"explanation":              "every obligation is a separate SMT query generated from the current source of the functions listed; 'obligations' counts the obligations this check claims (the locked set in obligations.lock.json, all regenerated on this run), 'discharged' those of them answered unsat (or syntactically trivial); obligations that are generated but not claimed are counted in generated_total and named in unlocked_undecided; vacuity checks are not counted",
		},
		"assumptions": assumptions,
	}
	os.MkdirAll(filepath.Join(cr.vdir, "evidence"), 0o755)
	b, _ := json.MarshalIndent(ev, "", " ")
	os.WriteFile(filepath.Join(cr.vdir, "evidence", cr.prop+".json"), b, 0o644)
}

// cmdLock writes the obligations that are discharged on the current tree into obligations.lock.json.
func cmdLock(args []string) {
	fs := flag.NewFlagSet("lock", flag.ExitOnError)
	repo := fs.String("repo", envOr("GFV_REPO", "/repo"), "repository")
	vdir := fs.String("verif", envOr("GFV_VERIF", "/verif"), "verif dir")
	prop := fs.String("property", "", "property id (or all)")
	runs := fs.Int("runs", 1, "lock only obligations discharged in every one of N runs")
	fs.Parse(args)
	var props map[string]PropSpec
	if err := readJSON(filepath.Join(*vdir, "props.json"), &props); err != nil {
		fmt.Fprintln(os.Stderr, err)
		os.Exit(2)
	}
	var lock map[string][]string
	readJSON(filepath.Join(*vdir, "obligations.lock.json"), &lock)
	if lock == nil {
		lock = map[string][]string{}
	}
	var ids []string
	if *prop == "all" {
		for k := range props {
			ids = append(ids, k)
		}
	} else {
		ids = strings.Split(*prop, ",")
	}
	sort.Strings(ids)
	g, err := loadAll(*repo, *vdir)
	if err != nil {
		fmt.Fprintln(os.Stderr, err)
		os.Exit(2)
	}
	scratch := scratchDir()
	defer os.RemoveAll(scratch)
	// hints of properties not being re-locked are kept
	newHints := map[string]string{}
	relock := map[string]bool{}
	for _, id := range ids {
		for _, k := range props[id].Functions {
			relock[k] = true
		}
	}
	for n, h := range solverHints {
		fn := n
		if i := strings.Index(n, "/"); i >= 0 {
			fn = n[:i]
		}
		if !relock[fn] {
			newHints[n] = h
		}
	}
	for _, id := range ids {
		okCount := map[string]int{}
		var order []string
		for run := 0; run < *runs; run++ {
			var all []*Obligation
			for _, k := range props[id].Functions {
				res := g.verifyFunc(k)
				all = append(all, res.Obligations...)
			}
			dischargeAll(all, scratch, 20*time.Second)
			// second chance, with far fewer solver processes competing for the cores: obligations that were not
			// discharged under the threshold in the crowded first pass are tried once more on their own
			var again []*Obligation
			for _, o := range all {
				if !o.Vacuity && o.Backend != "syntactic" && !(o.ok() && o.Ms < 6500) {
					again = append(again, o)
				}
			}
			if len(again) > 0 && len(again) < len(all) {
				for _, o := range again {
					o.Status, o.Backend, o.Ms, o.Model = "", "", 0, ""
				}
				dischargeAll(again, scratch, 20*time.Second)
			}
			for _, o := range all {
				if o.Vacuity {
					continue
				}
				if run == 0 {
					order = append(order, o.Name)
				}
				// only lock obligations that discharge well under the quick timeout
				if o.ok() && o.Ms < 6500 {
					okCount[o.Name]++
				}
				if o.ok() && o.Backend != "syntactic" && o.Backend != solvers[0].Name && o.Ms > 2000 {
					newHints[o.Name] = o.Backend
				}
			}
		}
		var names []string
		unc := []string{}
		bad := 0
		for _, n := range order {
			if okCount[n] == *runs {
				names = append(names, n)
			} else {
				bad++
				unc = append(unc, n)
				fmt.Printf("  not locked: %s\n", n)
			}
		}
		lock[id] = names
		lock["unclaimed:"+id] = unc
		fmt.Printf("%s: locked %d obligations (%d not discharged)\n", id, len(names), bad)
	}
	b, _ := json.MarshalIndent(lock, "", " ")
	os.WriteFile(filepath.Join(*vdir, "obligations.lock.json"), b, 0o644)
	hb, _ := json.MarshalIndent(newHints, "", " ")
	os.WriteFile(filepath.Join(*vdir, "solver_hints.json"), hb, 0o644)
	writeLocals(g, *vdir)
}

var reContractDerived = regexp.MustCompile(`^(post\.|assert:|vacuity|loop\d+\.[^#]*\.(init|preserve)$|loop\d+\.decreases|lemma\.)`)

// siteDerived: obligations named after a program point of the code (index#k, slice#k, makelen#k, frame#k, pre@callee#k,
// nilderef#k, …) rather than after a clause of the contract file.
func siteDerived(name string) bool {
	k := name
	if i := strings.Index(name, "/"); i >= 0 {
		k = name[i+1:]
	} else {
		return false
	}
	return !reContractDerived.MatchString(k)
}

// writeLocals records the variables each contracted function declares (name and type, in source order), so that a later
// pure rename can be followed by the contracts (Global.renameMap).
func writeLocals(g *Global, vdir string) {
	locals := map[string][]string{}
	for key := range g.cs.Funcs {
		if fi := g.funcs[key]; fi != nil {
			locals[key] = g.declStrings(fi)
		}
	}
	lb, _ := json.MarshalIndent(locals, "", " ")
	os.WriteFile(filepath.Join(vdir, "locals.lock.json"), lb, 0o644)
	// fingerprints of every loop and anchored statement (for stable ordinals after insertions / deletions)
	anch := map[string]AnchorLock{}
	g.lockedAnchors = nil
	g.lockedLocals = locals
	g.renameCache = map[string]map[string]types.Object{}
	for key := range g.cs.Funcs {
		fi := g.funcs[key]
		if fi == nil {
			continue
		}
		x := &Exec{g: g, c: newCtx(g), fi: fi, names: map[string]int{}, ord: map[ast.Node]int{}, loopOrd: map[ast.Node]int{}, anchors: map[ast.Stmt][]string{}, usedContracts: map[string]bool{}}
		x.prepass()
		anch[key] = x.currentAnchorLock()
	}
	ab, _ := json.MarshalIndent(anch, "", " ")
	os.WriteFile(filepath.Join(vdir, "anchors.lock.json"), ab, 0o644)
}

func cmdLocals(args []string) {
	g, err := loadAll(envOr("GFV_REPO", "/repo"), envOr("GFV_VERIF", "/verif"))
	if err != nil {
		fmt.Fprintln(os.Stderr, err)
		os.Exit(2)
	}
	writeLocals(g, envOr("GFV_VERIF", "/verif"))
}
