#!/usr/bin/env python3
# Rewrites the "claimed obligations" column of the table in DESIGN.md section 12.6 from obligations.lock.json.
import json, re
lock = json.load(open('/verif/obligations.lock.json'))
s = open('/verif/DESIGN.md').read()
a = s.index('### 12.6 Per-property results'); b = s.index('### 12.7', a)
sec = s[a:b]
def fix(m):
    pid = m.group(1)
    cols = m.group(0).split(' | ')
    cols[2] = str(len(lock.get(pid, [])))
    return ' | '.join(cols)
sec = re.sub(r'^\| (C\d\d) \|.*$', fix, sec, flags=re.M)
open('/verif/DESIGN.md', 'w').write(s[:a] + sec + s[b:])
