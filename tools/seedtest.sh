#!/bin/bash
# usage: seedtest.sh <seed dir under /tmp, e.g. seed_C01> <worktree> <name under /verif/seeded> <property> [more properties]
# 1. confirms the seeded change in the scratch worktree (builds, whole suite passes, demo fails with / passes without)
# 2. stores it under /verif/seeded/<name>/ ; 3. applies it to /repo, runs the given checks, undoes it.
set -u
export GOFLAGS=-mod=mod GOPROXY=off GOSUMDB=off GOTOOLCHAIN=local
SD=/tmp/$1; WT=$2; NAME=$3; shift 3
DEMO_DIR=$(head -1 $SD/demo_test.go | grep -o 'pkg/[a-z]*\|cmd' | head -1)
echo "== confirming $NAME in $WT (demo in $DEMO_DIR)"
cd $WT || exit 2
git checkout -q -- . ; git apply $SD/patch.diff || { echo "PATCH DOES NOT APPLY"; exit 2; }
cp $SD/demo_test.go $DEMO_DIR/zz_seeded_demo_test.go
go build ./... || { echo "DOES NOT BUILD"; exit 2; }
mv $DEMO_DIR/zz_seeded_demo_test.go /tmp/zz_demo_$NAME.go
SUITE=$(go test -vet=off -count=1 ./... 2>&1 | grep -c "^FAIL\|^--- FAIL")
cp /tmp/zz_demo_$NAME.go $DEMO_DIR/zz_seeded_demo_test.go
WITH=$(go test -vet=off -count=1 ./$DEMO_DIR/ 2>&1 | grep -c "^--- FAIL\|^FAIL\|panic:")
git checkout -q -- .
WITHOUT=$(go test -vet=off -count=1 ./$DEMO_DIR/ 2>&1 | grep -c "^--- FAIL\|^FAIL\|panic:")
rm -f $DEMO_DIR/zz_seeded_demo_test.go /tmp/zz_demo_$NAME.go
echo "suite failures with change: $SUITE ; demo failures with change: $WITH ; without: $WITHOUT"
if [ "$SUITE" != "0" ] || [ "$WITH" = "0" ] || [ "$WITHOUT" != "0" ]; then echo "NOT CONFIRMED"; exit 3; fi
mkdir -p /verif/seeded/$NAME && cp $SD/patch.diff $SD/demo_test.go /verif/seeded/$NAME/
echo "== running checks on /repo with the change applied"
cd /repo && git apply /verif/seeded/$NAME/patch.diff || { echo "does not apply to /repo"; exit 2; }
RES=""
for P in "$@"; do
  OUT=$(cd /verif && bin/gfverify check --property $P --no-evidence -q 2>&1); CODE=$?
  N=$(echo "$OUT" | grep -c "^VIOLATION")
  echo "$P exit=$CODE violations=$N"; echo "$OUT" | grep "^VIOLATION" | head -5
  RES="$RES $P:exit$CODE:viol$N"
done
git -C /repo checkout -- .
echo "RESULT $NAME:$RES suite_failures=$SUITE demo_with=$WITH demo_without=$WITHOUT"
