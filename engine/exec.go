package main

import (
	"fmt"
	"go/ast"
	"go/constant"
	"go/token"
	"go/types"
	"strings"
)

// ---------- assignment ----------

func (x *Exec) coerce(v Val, ty types.Type) Val {
	if v.Ty == nil {
		return x.materialize(v, ty)
	}
	return v
}

// assign stores v into the lvalue expression
// narrowRange: for integer types narrower than 64 bits (other than byte, which is a bit vector here) the inclusive range
// of representable values; 64-bit integers are treated as mathematical.
func narrowRange(t types.Type) (lo, hi string, ok bool) {
	b, isB := t.Underlying().(*types.Basic)
	if !isB {
		return "", "", false
	}
	if b.Name() == "rune" {
		return "", "", false // runes are code points, not counters
	}
	switch b.Kind() {
	case types.Int8:
		return "(- 128)", "127", true
	case types.Int16:
		return "(- 32768)", "32767", true
	case types.Int32:
		return "(- 2147483648)", "2147483647", true
	case types.Uint16:
		return "0", "65535", true
	case types.Uint32:
		return "0", "4294967295", true
	}
	return "", "", false
}

func (x *Exec) assign(lhs ast.Expr, v Val, st *State, env *Env) {
	if env.info != nil && x.c.inContract == 0 && v.T != "" {
		if lt := env.info.TypeOf(lhs); lt != nil {
			if lo, hi, ok := narrowRange(lt); ok {
				x.safety("narrow", lhs, st, and(app("<=", lo, v.T), app("<=", v.T, hi)), "value stored in a "+lt.String()+" fits (integers narrower than 64 bits are checked for overflow; wider ones are mathematical)")
			}
		}
	}
	switch n := lhs.(type) {
	case *ast.ParenExpr:
		x.assign(n.X, v, st, env)
		return
	case *ast.Ident:
		if n.Name == "_" {
			return
		}
		var obj types.Object
		if env.info != nil {
			obj = env.info.Defs[n]
			if obj == nil {
				obj = env.info.Uses[n]
			}
		} else {
			if g, ok := st.gh["g:"+n.Name]; ok {
				v = x.coerce(v, g.Ty)
				st.gh["g:"+n.Name] = Val{T: x.c.define(n.Name, x.c.sortOf(g.Ty), v.T), Ty: g.Ty}
				return
			}
			obj = x.resolveName(n.Name, env.scopePos)
			if obj != nil {
				panic(unsupported("ghost code assigns to real variable " + n.Name))
			}
		}
		if obj == nil {
			panic(unsupported("assignment to unknown " + n.Name))
		}
		if o, ok := obj.(*types.Var); ok && o.Pkg() != nil && o.Parent() == o.Pkg().Scope() {
			if x.con == nil || !x.con.Entry {
				panic(unsupported("assignment to package-level variable " + n.Name))
			}
			x.c.notes[x.fi.Key+": package-level variables are part of the state of this entry closure (arbitrary at entry: set by the flag parser)"] = true
		}
		v = x.coerce(v, obj.Type())
		if v.Nil {
			v = Val{T: x.c.zero(obj.Type()), Ty: obj.Type()}
		}
		st.vars[obj] = Val{T: x.c.define(n.Name, x.c.sortOf(obj.Type()), v.T), Ty: obj.Type()}
		return
	case *ast.IndexExpr:
		base := x.eval(n.X, st, env)
		switch u := base.Ty.Underlying().(type) {
		case *types.Slice:
			idx := x.defaultType(x.eval(n.Index, st, env))
			it := x.toIndex(idx, "Int")
			_, _, ln, _ := x.sliceParts(base)
			x.safety("index", n, st, and(app("<=", "0", it), app("<", it, ln)), "index in range")
			v = x.coerce(v, u.Elem())
			x.sliceWrite(st, base, it, v.T, n.Pos(), x.ord[n])
			return
		case *types.Array:
			idxv := x.eval(n.Index, st, env)
			ks := "Int"
			if u.Len() == 256 {
				ks = sortBV8
			}
			it := x.toIndex(idxv, ks)
			if ks == "Int" {
				x.safety("index", n, st, and(app("<=", "0", it), app("<", it, intLit(u.Len()))), "index in range")
			} else if idxv.Ty != nil && !isByte(idxv.Ty) {
				x.safety("index", n, st, and(app("<=", "0", idxv.T), app("<", idxv.T, "256")), "index in range")
			}
			v = x.coerce(v, u.Elem())
			x.assign(n.X, Val{T: app("store", base.T, it, v.T), Ty: base.Ty}, st, env)
			return
		case *types.Map:
			k := x.eval(n.Index, st, env)
			k = x.coerce(k, u.Key())
			v = x.coerce(v, u.Elem())
			ms := x.c.mapSort(u)
			dom := x.c.accessor("|"+ms+".dom|", base.T)
			val := x.c.accessor("|"+ms+".val|", base.T)
			size := x.c.accessor("|"+ms+".size|", base.T)
			nm := app("mk_"+ms, app("store", dom, k.T, "true"), app("store", val, k.T, v.T), add(size, ite(app("select", dom, k.T), "0", "1")))
			x.assign(n.X, Val{T: nm, Ty: base.Ty}, st, env)
			return
		}
	case *ast.SelectorExpr:
		base := x.eval(n.X, st, env)
		bt := base.Ty
		if p, ok := bt.Underlying().(*types.Pointer); ok {
			bt = p.Elem()
		}
		if s, ok := bt.Underlying().(*types.Struct); ok {
			sortName := x.c.sortOf(bt)
			for i := 0; i < s.NumFields(); i++ {
				if s.Field(i).Name() == n.Sel.Name {
					v = x.coerce(v, s.Field(i).Type())
					if v.Nil {
						v = Val{T: x.c.zero(s.Field(i).Type()), Ty: s.Field(i).Type()}
					}
					x.assign(n.X, Val{T: x.c.structSet(sortName, n.Sel.Name, base.T, v.T), Ty: base.Ty}, st, env)
					return
				}
			}
		}
	case *ast.StarExpr:
		x.assign(n.X, v, st, env)
		return
	}
	panic(unsupported("assignment target " + exprString(lhs)))
}

// ---------- statements ----------

func (x *Exec) execBlock(list []ast.Stmt, st *State, env *Env) Flow {
	fl := Flow{normal: st}
	for _, s := range list {
		if fl.normal == nil {
			break
		}
		f := x.execStmtWithPoints(s, fl.normal, env)
		fl.normal = f.normal
		fl.brk = x.merge(fl.brk, f.brk)
		fl.cont = x.merge(fl.cont, f.cont)
		fl.ret = x.merge(fl.ret, f.ret)
	}
	return fl
}

func (x *Exec) execStmtWithPoints(s ast.Stmt, st *State, env *Env) Flow {
	if st == nil {
		return Flow{} // unreachable: every path before this statement has ended
	}
	// only simple statements carry anchors; compound statements are traversed
	switch s.(type) {
	case *ast.AssignStmt, *ast.ExprStmt, *ast.ReturnStmt, *ast.SendStmt, *ast.IncDecStmt, *ast.DeclStmt, *ast.SwitchStmt, *ast.IfStmt, *ast.GoStmt, *ast.DeferStmt:
		if len(x.anchors[s]) == 0 {
			return x.execStmt(s, st, env)
		}
		for _, a := range x.anchors[s] {
			x.runPoints("before", a, st, s.Pos())
		}
		f := x.execStmt(s, st, env)
		if f.normal != nil {
			// names in an `after` point are resolved at the END of the statement, so that variables the statement
			// itself declares (f, err := …) are the ones meant
			for _, a := range x.anchors[s] {
				x.runPoints("after", a, f.normal, s.End())
			}
		}
		return f
	}
	return x.execStmt(s, st, env)
}

func (x *Exec) runPoints(when, anchor string, st *State, pos token.Pos) {
	if x.con == nil {
		return
	}
	for i := range x.con.Points {
		p := &x.con.Points[i]
		if p.When != when || p.Anchor != anchor {
			continue
		}
		x.usedPoints[i] = true
		cenv := x.contractEnv(pos)
		savedCall := x.curCall
		x.curCall = x.anchorCalls[anchor]
		if p.Assert != nil {
			x.c.inContract++
			t := x.defaultType(x.eval(p.Assert.Expr, st, cenv)).T
			x.c.inContract--
			label := p.Assert.Label
			if label == "" {
				label = fmt.Sprintf("%s.%s", when, anchor)
			}
			if p.Assume {
				if x.con == nil || !x.con.Spawns {
					panic(unsupported("assume points are environment assumptions of spawns-mode functions only"))
				}
				x.c.trusted[fmt.Sprintf("ENVIRONMENT ASSUMPTION %s [%s] (about what the goroutines this function starts put on its channels; justified by their contracts, not proved here): %s", x.fi.Key, label, p.Assert.Text)] = true
				x.c.assume(st.pc, t)
			} else {
				x.oblige("assert:"+label, 0, pos, st, t, p.Assert.Text)
				x.c.assume(st.pc, t)
			}
		} else {
			x.execGhost(p.Do, st, cenv)
		}
		x.curCall = savedCall
	}
}

func (x *Exec) execGhost(stmts []ast.Stmt, st *State, cenv *Env) {
	x.c.inContract++
	defer func() { x.c.inContract-- }()
	fl := x.execBlock(stmts, st, cenv)
	if fl.normal == nil {
		panic(unsupported("ghost code must fall through"))
	}
	if fl.normal != st {
		*st = *fl.normal
	}
}

func (x *Exec) contractEnv(pos token.Pos) *Env {
	return &Env{contract: true, names: x.baseNames, old: x.entry, scopePos: pos}
}

func (x *Exec) execStmt(s ast.Stmt, st *State, env *Env) Flow {
	if st == nil {
		return Flow{}
	}
	switch n := s.(type) {
	case *ast.BlockStmt:
		return x.execBlock(n.List, st, env)
	case *ast.ExprStmt:
		x.eval(n.X, st, env)
		if st.pc == "false" {
			return Flow{}
		}
		return Flow{normal: st}
	case *ast.EmptyStmt:
		return Flow{normal: st}
	case *ast.DeclStmt:
		gd := n.Decl.(*ast.GenDecl)
		if gd.Tok != token.VAR {
			return Flow{normal: st}
		}
		for _, sp := range gd.Specs {
			vs := sp.(*ast.ValueSpec)
			for i, id := range vs.Names {
				var obj types.Object
				var ty types.Type
				if env.info != nil {
					obj = env.info.Defs[id]
					ty = obj.Type()
				} else {
					panic(unsupported("var declaration in ghost code"))
				}
				if i < len(vs.Values) {
					v := x.coerce(x.eval(vs.Values[i], st, env), ty)
					if v.Nil {
						v = Val{T: x.c.zero(ty), Ty: ty}
					}
					st.vars[obj] = Val{T: v.T, Ty: ty}
				} else {
					st.vars[obj] = Val{T: x.c.zero(ty), Ty: ty}
				}
			}
		}
		return Flow{normal: st}
	case *ast.IncDecStmt:
		cur := x.eval(n.X, st, env)
		one := Val{C: constant.MakeInt64(1)}
		op := token.ADD
		if n.Tok == token.DEC {
			op = token.SUB
		}
		x.assign(n.X, x.binop(op, cur, one, st, n), st, env)
		return Flow{normal: st}
	case *ast.AssignStmt:
		x.execAssign(n, st, env)
		if st.pc == "false" {
			return Flow{}
		}
		return Flow{normal: st}
	case *ast.IfStmt:
		if n.Init != nil {
			f := x.execStmtWithPoints(n.Init, st, env)
			st = f.normal
		}
		cond := x.defaultType(x.eval(n.Cond, st, env)).T
		cond = x.c.define("c", "Bool", cond)
		thenSt := st.clone()
		thenSt.pc = x.namePC(and(st.pc, cond))
		elseSt := st.clone()
		elseSt.pc = x.namePC(and(st.pc, not(cond)))
		ft := x.execBlock(n.Body.List, thenSt, env)
		fe := Flow{normal: elseSt}
		if n.Else != nil {
			fe = x.execStmt(n.Else, elseSt, env)
		}
		return Flow{normal: x.merge(ft.normal, fe.normal), brk: x.merge(ft.brk, fe.brk), cont: x.merge(ft.cont, fe.cont), ret: x.merge(ft.ret, fe.ret)}
	case *ast.SwitchStmt:
		return x.execSwitch(n, st, env)
	case *ast.ForStmt:
		return x.execFor(n, st, env)
	case *ast.RangeStmt:
		return x.execRange(n, st, env)
	case *ast.ReturnStmt:
		x.execReturn(n, st, env)
		return Flow{ret: st}
	case *ast.BranchStmt:
		if n.Label != nil {
			panic(unsupported("labelled branch"))
		}
		switch n.Tok {
		case token.BREAK:
			return Flow{brk: st}
		case token.CONTINUE:
			return Flow{cont: st}
		}
	case *ast.SendStmt:
		x.execSend(n, st, env)
		return Flow{normal: st}
	case *ast.GoStmt:
		if x.con != nil && x.con.Prefix {
			// prefix mode: the verified prefix of this path ends where the first goroutine is started (points anchored
			// `before` the statement have run); other paths of an enclosing switch/if are still followed
			p := x.g.fset.Position(s.Pos())
			x.c.notes[fmt.Sprintf("%s: verified up to the go statement at %s:%d on that path", x.fi.Key, shortPath(p.Filename), p.Line)] = true
			dead := st.clone()
			dead.pc = "false"
			return Flow{normal: dead}
		}
		if x.con != nil && x.con.Spawns {
			// spawns mode: the started goroutine is verified separately against its own contract; here only the actual
			// arguments are evaluated (bounds obligations, arg(i) points) and the statement is otherwise skipped
			if fl, lit := n.Call.Fun.(*ast.FuncLit); !lit {
				for _, a := range n.Call.Args {
					x.eval(a, st, env)
				}
			} else if len(n.Call.Args) == 0 {
				// `go func() { worker(args…); wg.Done() }()`: the closure is not executed, but each call statement in it
				// gets its before-points run and its arguments evaluated in the current state
				for _, bs := range fl.Body.List {
					es, ok := bs.(*ast.ExprStmt)
					if !ok {
						continue
					}
					ce, ok := es.X.(*ast.CallExpr)
					if !ok {
						continue
					}
					for _, a := range x.anchors[es] {
						x.runPoints("before", a, st, es.Pos())
					}
					if calleeOf(ce, env.info) != nil && x.g.funcByObj[calleeOf(ce, env.info)] != nil {
						for _, a := range ce.Args {
							x.eval(a, st, env)
						}
					}
				}
			}
			x.c.notes[x.fi.Key+": `go` statements are skipped; what the started goroutines do is covered by their own contracts, their scheduling is not modelled"] = true
			return Flow{normal: st}
		}
		panic(unsupported(fmt.Sprintf("statement %T (concurrency / defer)", s)))
	case *ast.TypeSwitchStmt:
		if x.con != nil && x.con.Spawns {
			return x.execTypeSwitch(n, st, env)
		}
		panic(unsupported("type switch"))
	case *ast.SelectStmt:
		if x.con != nil && x.con.Spawns {
			return x.execSelect(n, st, env)
		}
		panic(unsupported(fmt.Sprintf("statement %T (concurrency / defer)", s)))
	case *ast.DeferStmt:
		if x.con != nil && x.con.Entry {
			if len(x.loopStack) > 0 {
				panic(unsupported("defer inside a loop"))
			}
			x.c.notes[x.fi.Key+": deferred calls run (last first) at every return on the paths that executed their defer statement; their arguments are evaluated at that return, not at the defer statement"] = true
			st.gh[fmt.Sprintf("defer:%d", n.Pos())] = Val{T: "true", Ty: tBool}
			// variables visible here may be out of scope at the return where the call runs: remember their values
			if x.deferVars == nil {
				x.deferVars = map[token.Pos]map[types.Object]Val{}
			}
			snap := map[types.Object]Val{}
			for k, v := range st.vars {
				snap[k] = v
			}
			x.deferVars[n.Pos()] = snap
			return Flow{normal: st}
		}
		panic(unsupported(fmt.Sprintf("statement %T (concurrency / defer)", s)))
	}
	panic(unsupported(fmt.Sprintf("statement %T", s)))
}

// execSelect (spawns mode): a select is a nondeterministic choice between its communication clauses - every clause is
// taken to be possible at every execution (no blocking, no fairness); `break` inside a clause leaves the select.
func (x *Exec) execSelect(n *ast.SelectStmt, st *State, env *Env) Flow {
	clauses := n.Body.List
	if len(clauses) == 0 {
		panic(unsupported("empty select"))
	}
	choice := x.c.freshConst("select", "Int")
	x.c.assume("true", and(app("<=", "0", choice), app("<", choice, fmt.Sprint(len(clauses)))))
	x.c.notes[x.fi.Key+": select is a free choice among its clauses (every clause possible every time; blocking, fairness and closed channels are not modelled)"] = true
	var out Flow
	for i, c := range clauses {
		cc := c.(*ast.CommClause)
		s := st.clone()
		s.pc = x.namePC(and(st.pc, eq(choice, fmt.Sprint(i))))
		if cc.Comm != nil {
			f := x.execStmt(cc.Comm, s, env)
			s = f.normal
		}
		var f Flow
		if s != nil {
			f = x.execBlock(cc.Body, s, env)
		}
		out = Flow{normal: x.merge(x.merge(out.normal, f.normal), f.brk), brk: out.brk, cont: x.merge(out.cont, f.cont), ret: x.merge(out.ret, f.ret)}
	}
	return out
}

// execTypeSwitch (spawns mode): dynamic types of interface values are not modelled, so a type switch is a free choice
// among its clauses (including "no clause" when there is no default); the variable bound by `switch x := v.(type)` is
// the same opaque handle as v in every clause.
func (x *Exec) execTypeSwitch(n *ast.TypeSwitchStmt, st *State, env *Env) Flow {
	if n.Init != nil {
		panic(unsupported("type switch with init statement"))
	}
	var src ast.Expr
	switch a := n.Assign.(type) {
	case *ast.AssignStmt:
		src = a.Rhs[0].(*ast.TypeAssertExpr).X
	case *ast.ExprStmt:
		src = a.X.(*ast.TypeAssertExpr).X
	}
	v := x.eval(src, st, env)
	choice := x.c.freshConst("typeswitch", "Int")
	x.c.notes[x.fi.Key+": a type switch is a free choice among its clauses (dynamic types are not modelled)"] = true
	hasDefault := false
	var out Flow
	for i, c := range n.Body.List {
		cc := c.(*ast.CaseClause)
		if cc.List == nil {
			hasDefault = true
		}
		s := st.clone()
		s.pc = x.namePC(and(st.pc, eq(choice, fmt.Sprint(i))))
		if obj := env.info.Implicits[cc]; obj != nil {
			if x.c.sortOf(obj.Type()) == "Int" {
				s.vars[obj] = Val{T: v.T, Ty: obj.Type()}
			} else {
				s.vars[obj] = Val{T: x.c.freshConst("tsw_"+obj.Name(), x.c.sortOf(obj.Type())), Ty: obj.Type()} // arbitrary value of the clause's type
			}
		}
		f := x.execBlock(cc.Body, s, env)
		out = Flow{normal: x.merge(x.merge(out.normal, f.normal), f.brk), brk: out.brk, cont: x.merge(out.cont, f.cont), ret: x.merge(out.ret, f.ret)}
	}
	if !hasDefault {
		s := st.clone()
		s.pc = x.namePC(and(st.pc, or(app("<", choice, "0"), app(">=", choice, fmt.Sprint(len(n.Body.List))))))
		out.normal = x.merge(out.normal, s)
	}
	return out
}

func (x *Exec) execAssign(n *ast.AssignStmt, st *State, env *Env) {
	if n.Tok != token.ASSIGN && n.Tok != token.DEFINE {
		// op-assign
		var op token.Token
		switch n.Tok {
		case token.ADD_ASSIGN:
			op = token.ADD
		case token.SUB_ASSIGN:
			op = token.SUB
		case token.MUL_ASSIGN:
			op = token.MUL
		case token.QUO_ASSIGN:
			op = token.QUO
		case token.REM_ASSIGN:
			op = token.REM
		case token.OR_ASSIGN:
			op = token.OR
		case token.AND_ASSIGN:
			op = token.AND
		default:
			panic(unsupported("assignment operator " + n.Tok.String()))
		}
		cur := x.eval(n.Lhs[0], st, env)
		r := x.eval(n.Rhs[0], st, env)
		x.assign(n.Lhs[0], x.binop(op, cur, r, st, n), st, env)
		return
	}
	if len(n.Lhs) == len(n.Rhs) {
		vals := make([]Val, len(n.Rhs))
		for i, r := range n.Rhs {
			vals[i] = x.eval(r, st, env)
			if env.info == nil && n.Tok == token.DEFINE {
				// ghost local definition
				id := n.Lhs[i].(*ast.Ident)
				v := x.defaultType(vals[i])
				st.gh["g:"+id.Name] = v
			}
		}
		if env.info == nil && n.Tok == token.DEFINE {
			return
		}
		for i, l := range n.Lhs {
			x.assign(l, vals[i], st, env)
		}
		return
	}
	if len(n.Rhs) == 1 {
		// tuple: call, map comma-ok
		switch r := n.Rhs[0].(type) {
		case *ast.IndexExpr:
			base := x.eval(r.X, st, env)
			if u, ok := base.Ty.Underlying().(*types.Map); ok {
				k := x.coerce(x.eval(r.Index, st, env), u.Key())
				ms := x.c.mapSort(u)
				v := Val{T: x.c.define("mapval", x.c.sortOf(u.Elem()), app("select", x.c.accessor("|"+ms+".val|", base.T), k.T)), Ty: u.Elem()}
				x.assumeWFAtom(st, v)
				okv := Val{T: app("select", x.c.accessor("|"+ms+".dom|", base.T), k.T), Ty: tBool}
				x.assign(n.Lhs[0], v, st, env)
				x.assign(n.Lhs[1], okv, st, env)
				return
			}
		case *ast.CallExpr:
			v := x.eval(r, st, env)
			if len(v.Tuple) != len(n.Lhs) {
				panic(unsupported("tuple assignment arity"))
			}
			for i, l := range n.Lhs {
				x.assign(l, v.Tuple[i], st, env)
			}
			return
		}
	}
	panic(unsupported("assignment form"))
}

func (x *Exec) execSwitch(n *ast.SwitchStmt, st *State, env *Env) Flow {
	if n.Init != nil {
		st = x.execStmt(n.Init, st, env).normal
	}
	var tag *Val
	if n.Tag != nil {
		v := x.defaultType(x.eval(n.Tag, st, env))
		tag = &v
	}
	var out Flow
	remaining := st.pc // pc under which no earlier case matched
	var defaultClause *ast.CaseClause
	for _, cc := range n.Body.List {
		cl := cc.(*ast.CaseClause)
		if cl.List == nil {
			defaultClause = cl
			continue
		}
		var conds []string
		tmp := st.clone()
		tmp.pc = remaining
		for _, e := range cl.List {
			v := x.eval(e, tmp, env)
			if tag != nil {
				v = x.coerce(v, tag.Ty)
				conds = append(conds, x.binop(token.EQL, *tag, v, tmp, e).T)
			} else {
				conds = append(conds, x.defaultType(v).T)
			}
		}
		cond := x.c.define("case", "Bool", or(conds...))
		bs := st.clone()
		bs.pc = x.namePC(and(remaining, cond))
		f := x.execBlock(cl.Body, bs, env)
		for _, s := range cl.Body {
			if b, ok := s.(*ast.BranchStmt); ok && b.Tok == token.FALLTHROUGH {
				panic(unsupported("fallthrough"))
			}
		}
		out.normal = x.merge(out.normal, f.normal)
		out.normal = x.merge(out.normal, f.brk) // break leaves the switch
		out.cont = x.merge(out.cont, f.cont)
		out.ret = x.merge(out.ret, f.ret)
		remaining = x.namePC(and(remaining, not(cond)))
	}
	ds := st.clone()
	ds.pc = remaining
	if defaultClause != nil {
		f := x.execBlock(defaultClause.Body, ds, env)
		out.normal = x.merge(out.normal, f.normal)
		out.normal = x.merge(out.normal, f.brk)
		out.cont = x.merge(out.cont, f.cont)
		out.ret = x.merge(out.ret, f.ret)
	} else {
		out.normal = x.merge(out.normal, ds)
	}
	return out
}

func (x *Exec) execReturn(n *ast.ReturnStmt, st *State, env *Env) {
	x.execReturn0(n, st, env)
	// `after call:` points of calls made inside the return statement itself run once its results are evaluated
	for _, a := range x.anchors[n] {
		if strings.HasPrefix(a, "call:") {
			x.runPoints("after", a, st, n.Pos())
		}
	}
	if x.con == nil || !x.con.Entry {
		return
	}
	// entry closures: run the deferred calls that precede this return, with the named results visible to them
	sig := x.fi.Sig
	for i := 0; i < sig.Results().Len(); i++ {
		if r := sig.Results().At(i); r.Name() != "" && r.Name() != "_" {
			if v, ok := st.vars[x.results[i]]; ok {
				st.vars[r] = v
			}
		}
	}
	var ds []*ast.DeferStmt
	ast.Inspect(x.fi.Body, func(nd ast.Node) bool {
		if fl, ok := nd.(*ast.FuncLit); ok && fl != x.fi.Lit {
			return false
		}
		if d, ok := nd.(*ast.DeferStmt); ok && d.Pos() < n.Pos() {
			ds = append(ds, d)
		}
		return true
	})
	for i := len(ds) - 1; i >= 0; i-- {
		flag, ok := st.gh[fmt.Sprintf("defer:%d", ds[i].Pos())]
		if !ok || flag.T == "false" {
			continue // its defer statement was not executed on this path
		}
		run := func(s *State) {
			for k, v := range x.deferVars[ds[i].Pos()] {
				if _, ok := s.vars[k]; !ok {
					s.vars[k] = v
				}
			}
			for _, a := range x.anchors[ds[i]] {
				x.runPoints("before", a, s, ds[i].Pos())
			}
			x.eval(ds[i].Call, s, env)
		}
		if flag.T == "true" {
			run(st)
			continue
		}
		on, off := st.clone(), st.clone()
		on.pc = x.namePC(and(st.pc, flag.T))
		off.pc = x.namePC(and(st.pc, not(flag.T)))
		run(on)
		m := x.merge(on, off)
		m.pc = st.pc
		*st = *m
	}
	for i := 0; i < sig.Results().Len(); i++ {
		if r := sig.Results().At(i); r.Name() != "" && r.Name() != "_" {
			if v, ok := st.vars[r]; ok {
				st.vars[x.results[i]] = v
			}
		}
	}
}

func (x *Exec) execReturn0(n *ast.ReturnStmt, st *State, env *Env) {
	sig := x.fi.Sig
	if len(n.Results) == 0 {
		// naked return: named results keep their current values
		for i := 0; i < sig.Results().Len(); i++ {
			r := sig.Results().At(i)
			if v, ok := st.vars[r]; ok {
				st.vars[x.results[i]] = v
			}
		}
		return
	}
	if len(n.Results) == 1 && sig.Results().Len() > 1 {
		v := x.eval(n.Results[0], st, env)
		for i := range v.Tuple {
			st.vars[x.results[i]] = v.Tuple[i]
		}
		return
	}
	vals := make([]Val, len(n.Results))
	for i, r := range n.Results {
		rt := sig.Results().At(i).Type()
		v := x.coerce(x.eval(r, st, env), rt)
		if v.Nil {
			v = Val{T: x.c.zero(rt), Ty: rt}
		}
		vals[i] = Val{T: x.c.define("result", x.c.sortOf(rt), v.T), Ty: rt}
	}
	for i := range vals {
		st.vars[x.results[i]] = vals[i]
	}
}

// ---------- loops ----------

// assignedIn collects the variables assigned anywhere inside a statement (syntactically)
func (x *Exec) assignedIn(body ast.Node, info *types.Info) (vars map[types.Object]bool, heapSorts map[string]bool, allocs bool, ghosts bool) {
	vars = map[types.Object]bool{}
	heapSorts = map[string]bool{}
	var rootOf func(e ast.Expr) (types.Object, bool)
	rootOf = func(e ast.Expr) (types.Object, bool) {
		switch n := e.(type) {
		case *ast.Ident:
			obj := info.Uses[n]
			if obj == nil {
				obj = info.Defs[n]
			}
			return obj, false
		case *ast.ParenExpr:
			return rootOf(n.X)
		case *ast.StarExpr:
			return rootOf(n.X)
		case *ast.SelectorExpr:
			return rootOf(n.X)
		case *ast.IndexExpr:
			t := info.TypeOf(n.X)
			if t != nil {
				if _, ok := t.Underlying().(*types.Slice); ok {
					return nil, true
				}
			}
			return rootOf(n.X)
		}
		return nil, false
	}
	mark := func(e ast.Expr) {
		obj, heap := rootOf(e)
		if heap {
			if ix, ok := e.(*ast.IndexExpr); ok {
				_ = ix
			}
			// element store: find the slice's element sort
			var walk func(e ast.Expr)
			walk = func(e ast.Expr) {
				switch n := e.(type) {
				case *ast.IndexExpr:
					t := info.TypeOf(n.X)
					if sl, ok := t.Underlying().(*types.Slice); ok {
						heapSorts[x.c.sortOf(sl.Elem())] = true
						return
					}
					walk(n.X)
				case *ast.SelectorExpr:
					walk(n.X)
				case *ast.ParenExpr:
					walk(n.X)
				}
			}
			walk(e)
			return
		}
		if obj != nil {
			vars[obj] = true
		}
	}
	ast.Inspect(body, func(nd ast.Node) bool {
		switch n := nd.(type) {
		case *ast.AssignStmt:
			for _, l := range n.Lhs {
				mark(l)
			}
		case *ast.IncDecStmt:
			mark(n.X)
		case *ast.RangeStmt:
			if n.Key != nil {
				mark(n.Key)
			}
			if n.Value != nil {
				mark(n.Value)
			}
		case *ast.DeclStmt:
			if gd, ok := n.Decl.(*ast.GenDecl); ok {
				for _, sp := range gd.Specs {
					if vs, ok := sp.(*ast.ValueSpec); ok {
						for _, id := range vs.Names {
							if obj := info.Defs[id]; obj != nil {
								vars[obj] = true
							}
						}
					}
				}
			}
		case *ast.CallExpr:
			if id, ok := n.Fun.(*ast.Ident); ok {
				if _, isB := info.Uses[id].(*types.Builtin); isB {
					switch id.Name {
					case "append":
						allocs = true
						if t := info.TypeOf(n); t != nil {
							if sl, ok := t.Underlying().(*types.Slice); ok {
								heapSorts[x.c.sortOf(sl.Elem())] = true
							}
						}
					case "make":
						allocs = true
						if t := info.TypeOf(n); t != nil {
							if sl, ok := t.Underlying().(*types.Slice); ok {
								heapSorts[x.c.sortOf(sl.Elem())] = true
							}
						}
					case "copy":
						if t := info.TypeOf(n.Args[0]); t != nil {
							if sl, ok := t.Underlying().(*types.Slice); ok {
								heapSorts[x.c.sortOf(sl.Elem())] = true
							}
						}
					case "delete":
						mark(n.Args[0])
					}
					return true
				}
			}
			if tv, ok := info.Types[n.Fun]; ok && tv.IsType() {
				// conversion []byte(s) allocates
				if sl, ok := tv.Type.Underlying().(*types.Slice); ok {
					allocs = true
					heapSorts[x.c.sortOf(sl.Elem())] = true
				}
				return true
			}
			// other calls: effects by callee
			a, gh, hs := x.callEffects(n, info)
			allocs = allocs || a
			ghosts = ghosts || gh
			for _, s := range hs {
				heapSorts[s] = true
			}
		case *ast.CompositeLit:
			if t := info.TypeOf(n); t != nil {
				if sl, ok := t.Underlying().(*types.Slice); ok {
					allocs = true
					heapSorts[x.c.sortOf(sl.Elem())] = true
				}
			}
		case *ast.SendStmt:
			ghosts = true
		case *ast.UnaryExpr:
			if n.Op == token.ARROW {
				ghosts = true // a receive advances a family counter (spawns mode)
			}
		case *ast.FuncLit:
			return false
		}
		return true
	})
	return
}

// havocLoop prepares the state at an arbitrary iteration of a loop.
func (x *Exec) havocLoop(body ast.Node, extra []types.Object, st *State, env *Env, spec *LoopSpec) (*State, *loopCtx) {
	vars, heaps, allocs, ghosts := x.assignedIn(body, env.info)
	for _, o := range extra {
		if o != nil {
			vars[o] = true
		}
	}
	h := st.clone()
	allocEntry := st.alloc
	if !isSimple(allocEntry) {
		allocEntry = x.c.define("alloc", "Int", allocEntry)
	}
	lc := &loopCtx{allocEntry: allocEntry}
	// the allocation counter is advanced first: well-formedness of the havocked values below is relative to it
	if allocs {
		h.alloc = x.c.freshConst("alloc", "Int")
		x.c.assume("true", app(">=", h.alloc, allocEntry))
	}
	for _, obj := range sortedObjs(vars) {
		old, ok := st.vars[obj]
		if !ok {
			continue // declared inside the loop
		}
		nv := Val{T: x.c.freshConst(obj.Name(), x.c.sortOf(obj.Type())), Ty: obj.Type()}
		h.vars[obj] = nv
		x.assumeWF(h, nv)
		// automatic framing invariant for slices: the array is the pre-loop one or was allocated during the loop
		if _, isSl := obj.Type().Underlying().(*types.Slice); isSl && x.writtenThrough(body, obj, env.info) {
			lc.autoSlices = append(lc.autoSlices, autoSlice{obj, x.c.accessor("s.ref", old.T)})
			lc.tracked = append(lc.tracked, trackedSlice{name: obj.Name(), sort: x.c.sortOf(x.elemType(obj.Type())), preRef: x.c.accessor("s.ref", old.T), headRef: x.c.accessor("s.ref", nv.T), obj: obj})
			x.c.assume("true", or(eq(x.c.accessor("s.ref", nv.T), x.c.accessor("s.ref", old.T)), app(">=", x.c.accessor("s.ref", nv.T), allocEntry)))
		}
	}
	// the same automatic framing invariant for slice-typed field paths (v.f, v.f.g) that the body appends to / stores into
	for _, pe := range x.writtenFieldPaths(body, env.info) {
		var pre, post Val
		func() {
			saved := x.c.inContract
			defer func() {
				x.c.inContract = saved
				recover()
			}()
			x.c.inContract++
			pre = x.eval(pe, st.clone(), env)
			post = x.eval(pe, h.clone(), env)
		}()
		if pre.T == "" || post.T == "" || pre.T == post.T {
			continue
		}
		preRef := x.c.accessor("s.ref", pre.T)
		lc.autoPaths = append(lc.autoPaths, autoPath{pe, preRef})
		lc.tracked = append(lc.tracked, trackedSlice{name: exprString(pe), sort: x.c.sortOf(x.elemType(post.Ty)), preRef: preRef, headRef: x.c.accessor("s.ref", post.T), expr: pe})
		x.c.assume("true", or(eq(x.c.accessor("s.ref", post.T), preRef), app(">=", x.c.accessor("s.ref", post.T), allocEntry)))
	}
	// loop-carried slices that are written through never share a backing array (unless nil): holds at entry when they were
	// allocated separately, and is preserved because a reallocating append returns a brand-new array
	for a := 0; a < len(lc.tracked); a++ {
		for b := a + 1; b < len(lc.tracked); b++ {
			ta, tb := lc.tracked[a], lc.tracked[b]
			if ta.sort != tb.sort {
				continue
			}
			pre := or(not(eq(ta.preRef, tb.preRef)), eq(ta.preRef, "0"))
			x.oblige(fmt.Sprintf("loop%d.autodisjoint(%s,%s).init", x.curLoopOrd, ta.name, tb.name), 0, body.Pos(), st, pre, "two slices written in the loop do not share a backing array at loop entry")
			x.c.assume("true", or(not(eq(ta.headRef, tb.headRef)), eq(ta.headRef, "0")))
			lc.pairs = append(lc.pairs, [2]int{a, b})
		}
	}
	// heaps: arrays allocated before the loop and not written in it keep their contents. Which pre-existing arrays
	// may be written is decided by frame obligations on every store inside the loop (loopCtx.modRefs).
	if len(heaps) > 0 {
		all := heaps["*"]
		sorts := map[string]bool{}
		for s := range heaps {
			if s != "*" {
				sorts[s] = true
			}
		}
		if all {
			for s := range st.heaps {
				sorts[s] = true
			}
			for s := range x.c.heapSorts {
				sorts[s] = true
			}
		}
		for _, s := range sortedKeys(sorts) {
			oldH := x.heap(st, s)
			nh := x.c.freshConst("H", x.c.heapName(s))
			h.heaps[s] = nh
			if spec != nil && spec.WritesAll {
				lc.writesAll = true
				continue // no frame at all for this loop
			}
			// frame: arrays existing at loop entry other than the loop's writable set are unchanged
			var excl []string
			for _, r := range x.loopWritable(body, st, env, s) {
				excl = append(excl, not(eq("r", r)))
				lc.modRefs = append(lc.modRefs, r)
			}
			x.c.assumes = append(x.c.assumes, fmt.Sprintf("(forall ((r Int)) (! (=> %s (= (select %s r) (select %s r))) :pattern ((select %s r))))",
				and(append([]string{app("<", "r", allocEntry)}, excl...)...), nh, oldH, nh))
		}
	}
	if ghosts {
		allHandles, handles := x.ghostHandlesIn(body, st, env)
		for _, k := range sortedGhostKeys(st.gh) {
			v := st.gh[k]
			if strings.HasPrefix(k, "fam") {
				if !allHandles && len(handles) == 0 {
					continue // no send anywhere in the loop body
				}
			} else if i := strings.Index(k, ":"); i >= 0 && !allHandles && !handles[k[i+1:]] {
				continue
			}
			switch {
			case strings.HasPrefix(k, "sent:"), strings.HasPrefix(k, "written:"):
				s := *v.Seq
				s.Arr = x.c.freshConst(k, "(Array Int "+s.ESort+")")
				s.N = x.c.freshConst(k+".n", "Int")
				x.c.assume("true", app(">=", s.N, v.Seq.N))
				// prefix preserved
				x.c.assumes = append(x.c.assumes, fmt.Sprintf("(forall ((j Int)) (! (=> (and (<= 0 j) (< j %s)) (= (select %s j) (select %s j))) :pattern ((select %s j))))", v.Seq.N, s.Arr, v.Seq.Arr, s.Arr))
				h.gh[k] = Val{Seq: &s, Ty: v.Ty}
			case strings.HasPrefix(k, "famarr:"):
				// per-handle logs only grow: every handle keeps its prefix
				es := k[7:]
				na := x.c.freshConst("famarr", "(Array Int (Array Int "+es+"))")
				nn := x.c.freshConst("famn", "(Array Int Int)")
				on := st.gh["famn:"+es].T
				x.c.assumes = append(x.c.assumes, fmt.Sprintf("(forall ((h Int)) (! (>= (select %s h) (select %s h)) :pattern ((select %s h))))", nn, on, nn))
				x.c.assumes = append(x.c.assumes, fmt.Sprintf("(forall ((h Int) (j Int)) (! (=> (and (<= 0 j) (< j (select %s h))) (= (select (select %s h) j) (select (select %s h) j))) :pattern ((select (select %s h) j))))", on, na, v.T, na))
				h.gh[k] = Val{T: na}
				h.gh["famn:"+es] = Val{T: nn}
			case strings.HasPrefix(k, "famrecvn:"):
				nn := x.c.freshConst("famrecvn", "(Array Int Int)")
				x.c.assumes = append(x.c.assumes, fmt.Sprintf("(forall ((h Int)) (! (>= (select %s h) (select %s h)) :pattern ((select %s h))))", nn, v.T, nn))
				h.gh[k] = Val{T: nn}
			case strings.HasPrefix(k, "famenv:"):
				// the environment streams are fixed for the whole call
			case strings.HasPrefix(k, "famn:"):
				// handled with famarr
			case strings.HasPrefix(k, "failed:"):
				nf := x.c.freshConst("failed", "Bool")
				x.c.assume("true", implies(v.T, nf))
				h.gh[k] = Val{T: nf, Ty: tBool}
			case strings.HasPrefix(k, "scanpos:"):
				np := x.c.freshConst("scanpos", "Int")
				x.c.assume("true", and(app(">=", np, v.T), app("<=", np, st.gh["scan:"+k[8:]].Seq.N)))
				h.gh[k] = Val{T: np, Ty: tInt}
			case strings.HasPrefix(k, "recvpos:"):
				np := x.c.freshConst("recvpos", "Int")
				x.c.assume("true", app(">=", np, v.T))
				h.gh[k] = Val{T: np, Ty: tInt}
			}
		}
	}
	// ghost variables assigned by the loop's ghost code
	if spec != nil {
		for _, name := range ghostAssigned(append(append([]ast.Stmt{}, spec.DoStart...), spec.DoEnd...)) {
			if v, ok := st.gh["g:"+name]; ok {
				h.gh["g:"+name] = Val{T: x.c.freshConst(name, x.c.sortOf(v.Ty)), Ty: v.Ty}
			}
		}
	}
	// ghost variables assigned by the ghost code of loops nested inside this one
	if x.con != nil {
		ast.Inspect(body, func(nd ast.Node) bool {
			switch nd.(type) {
			case *ast.ForStmt, *ast.RangeStmt:
				if ls, ok := x.con.Loops[x.loopOrd[nd]]; ok && ls != spec {
					for _, name := range ghostAssigned(append(append([]ast.Stmt{}, ls.DoStart...), ls.DoEnd...)) {
						if v, ok := st.gh["g:"+name]; ok {
							h.gh["g:"+name] = Val{T: x.c.freshConst(name, x.c.sortOf(v.Ty)), Ty: v.Ty}
						}
					}
				}
			case *ast.FuncLit:
				return false
			}
			return true
		})
	}
	// ghost variables assigned by point specs located inside the loop body
	for _, name := range x.ghostAssignedByPointsIn(body) {
		if v, ok := st.gh["g:"+name]; ok {
			h.gh["g:"+name] = Val{T: x.c.freshConst(name, x.c.sortOf(v.Ty)), Ty: v.Ty}
		}
	}
	return h, lc
}

// checkAutoFrame re-establishes the automatic slice-framing invariant at the end of a loop body
// writtenFieldPaths: selector paths (not plain identifiers) of slice type that the body appends to or stores through
func (x *Exec) writtenFieldPaths(body ast.Node, info *types.Info) []ast.Expr {
	var out []ast.Expr
	seen := map[string]bool{}
	add := func(e ast.Expr) {
		if _, isSel := e.(*ast.SelectorExpr); !isSel || !isPath(e) {
			return
		}
		if t := info.TypeOf(e); t != nil {
			if _, ok := t.Underlying().(*types.Slice); ok && !seen[exprString(e)] {
				seen[exprString(e)] = true
				out = append(out, e)
			}
		}
	}
	ast.Inspect(body, func(nd ast.Node) bool {
		switch n := nd.(type) {
		case *ast.AssignStmt:
			for _, l := range n.Lhs {
				if ix, ok := l.(*ast.IndexExpr); ok {
					add(ix.X)
				}
			}
		case *ast.CallExpr:
			if id, ok := n.Fun.(*ast.Ident); ok && (id.Name == "append" || id.Name == "copy") && len(n.Args) > 0 {
				add(n.Args[0])
			}
		case *ast.FuncLit:
			return false
		}
		return true
	})
	return out
}

func (x *Exec) trackedRef(t trackedSlice, st *State) string {
	if t.obj != nil {
		if v, ok := st.vars[t.obj]; ok {
			return x.c.accessor("s.ref", v.T)
		}
		return ""
	}
	var v Val
	func() {
		saved := x.c.inContract
		defer func() {
			x.c.inContract = saved
			recover()
		}()
		x.c.inContract++
		v = x.eval(t.expr, st.clone(), x.codeEnv)
	}()
	if v.T == "" {
		return ""
	}
	return x.c.accessor("s.ref", v.T)
}

func (x *Exec) checkAutoFrame(lc *loopCtx, end *State, ord int, pos token.Pos) {
	for _, pr := range lc.pairs {
		ta, tb := lc.tracked[pr[0]], lc.tracked[pr[1]]
		ra, rb := x.trackedRef(ta, end), x.trackedRef(tb, end)
		if ra == "" || rb == "" {
			continue
		}
		x.oblige(fmt.Sprintf("loop%d.autodisjoint(%s,%s).preserve", ord, ta.name, tb.name), 0, pos, end, or(not(eq(ra, rb)), eq(ra, "0")), "two slices written in the loop still do not share a backing array")
	}
	for _, a := range lc.autoPaths {
		var v Val
		func() {
			saved := x.c.inContract
			defer func() {
				x.c.inContract = saved
				recover()
			}()
			x.c.inContract++
			v = x.eval(a.expr, end.clone(), x.codeEnv)
		}()
		if v.T == "" {
			continue
		}
		r := x.c.accessor("s.ref", v.T)
		x.oblige(fmt.Sprintf("loop%d.autoframe(%s)", ord, exprString(a.expr)), 0, pos, end, or(eq(r, a.preRef), app(">=", r, lc.allocEntry)), "slice field still points to its pre-loop array or to one allocated inside the loop")
	}
	for _, a := range lc.autoSlices {
		v, ok := end.vars[a.obj]
		if !ok {
			continue
		}
		r := x.c.accessor("s.ref", v.T)
		x.oblige(fmt.Sprintf("loop%d.autoframe(%s)", ord, a.obj.Name()), 0, pos, end, or(eq(r, a.preRef), app(">=", r, lc.allocEntry)), "slice variable still points to its pre-loop array or to one allocated inside the loop")
	}
}

func sortedGhostKeys(m map[string]Val) []string {
	ks := map[string]bool{}
	for k := range m {
		ks[k] = true
	}
	return sortedKeys(ks)
}

func ghostAssigned(stmts []ast.Stmt) []string {
	seen := map[string]bool{}
	var root func(e ast.Expr) string
	root = func(e ast.Expr) string {
		switch n := e.(type) {
		case *ast.Ident:
			return n.Name
		case *ast.IndexExpr:
			return root(n.X)
		case *ast.SelectorExpr:
			return root(n.X)
		case *ast.ParenExpr:
			return root(n.X)
		case *ast.StarExpr:
			return root(n.X)
		}
		return ""
	}
	for _, s := range stmts {
		ast.Inspect(s, func(nd ast.Node) bool {
			switch n := nd.(type) {
			case *ast.AssignStmt:
				for _, l := range n.Lhs {
					if r := root(l); r != "" {
						seen[r] = true
					}
				}
			case *ast.IncDecStmt:
				if r := root(n.X); r != "" {
					seen[r] = true
				}
			case *ast.CallExpr:
				if id, ok := n.Fun.(*ast.Ident); ok && id.Name == "delete" && len(n.Args) > 0 {
					if r := root(n.Args[0]); r != "" {
						seen[r] = true
					}
				}
			}
			return true
		})
	}
	return sortedKeys(seen)
}

func (x *Exec) ghostAssignedByPointsIn(body ast.Node) []string {
	if x.con == nil {
		return nil
	}
	seen := map[string]bool{}
	ast.Inspect(body, func(nd ast.Node) bool {
		if s, ok := nd.(ast.Stmt); ok {
			for _, a := range x.anchors[s] {
				for _, p := range x.con.Points {
					if p.Anchor == a && p.Do != nil {
						for _, g := range ghostAssigned(p.Do) {
							seen[g] = true
						}
					}
				}
			}
		}
		return true
	})
	return sortedKeys(seen)
}

// loopWritable: refs (at loop entry) of slice variables that the loop body stores into / appends to in place.
func (x *Exec) loopWritable(body ast.Node, st *State, env *Env, elemSort string) []string {
	seen := map[string]bool{}
	var out []string
	addExpr := func(e ast.Expr) {
		t := env.info.TypeOf(e)
		if t == nil {
			return
		}
		sl, ok := t.Underlying().(*types.Slice)
		if !ok || x.c.sortOf(sl.Elem()) != elemSort {
			return
		}
		// evaluate the slice expression in the loop-entry state if it is a plain variable / field path
		if !isPath(e) {
			return
		}
		var v Val
		func() {
			saved := x.c.inContract
			defer func() {
				x.c.inContract = saved
				recover()
			}()
			x.c.inContract++
			v = x.eval(e, st.clone(), env)
		}()
		if v.T == "" {
			return
		}
		r := x.c.accessor("s.ref", v.T)
		if !seen[r] {
			seen[r] = true
			out = append(out, r)
		}
	}
	ast.Inspect(body, func(nd ast.Node) bool {
		switch n := nd.(type) {
		case *ast.AssignStmt:
			for _, l := range n.Lhs {
				if ix, ok := l.(*ast.IndexExpr); ok {
					addExpr(ix.X)
				}
			}
		case *ast.CallExpr:
			if id, ok := n.Fun.(*ast.Ident); ok && (id.Name == "append" || id.Name == "copy") && len(n.Args) > 0 {
				addExpr(n.Args[0])
			}
		case *ast.FuncLit:
			return false
		}
		return true
	})
	// arrays listed in the function's modifies clause are writable by callees inside the loop
	out = append(out, x.modRefs...)
	return out
}

func isPath(e ast.Expr) bool {
	switch n := e.(type) {
	case *ast.Ident:
		return true
	case *ast.SelectorExpr:
		return isPath(n.X)
	case *ast.ParenExpr:
		return isPath(n.X)
	}
	return false
}

func (x *Exec) loopSpec(node ast.Node) (*LoopSpec, int) {
	ord := x.loopOrd[node]
	if x.con != nil {
		if ls, ok := x.con.Loops[ord]; ok {
			return ls, ord
		}
	}
	return &LoopSpec{}, ord
}

func (x *Exec) checkInvariants(kind string, ord int, spec *LoopSpec, st *State, pos token.Pos, extraNames map[string]Val) {
	cenv := x.contractEnv(pos)
	for k, v := range extraNames {
		cenv = cenv.with(k, v)
	}
	for i, inv := range spec.Invariants {
		x.c.inContract++
		t := x.defaultType(x.eval(inv.Expr, st, cenv)).T
		x.c.inContract--
		label := inv.Label
		if label == "" {
			label = fmt.Sprintf("inv%d", i+1)
		}
		x.oblige(fmt.Sprintf("loop%d.%s.%s", ord, label, kind), 0, pos, st, t, inv.Text)
	}
}

func (x *Exec) assumeInvariants(spec *LoopSpec, st *State, pos token.Pos, extraNames map[string]Val) {
	cenv := x.contractEnv(pos)
	for k, v := range extraNames {
		cenv = cenv.with(k, v)
	}
	for _, inv := range spec.Invariants {
		x.c.inContract++
		t := x.defaultType(x.eval(inv.Expr, st, cenv)).T
		x.c.inContract--
		x.c.assume(st.pc, t)
	}
}

func (x *Exec) execFor(n *ast.ForStmt, st *State, env *Env) Flow {
	spec, ord := x.loopSpec(n)
	if n.Init != nil {
		st = x.execStmt(n.Init, st, env).normal
		if st == nil {
			return Flow{}
		}
	}
	pos := n.Body.Lbrace + 1
	x.checkInvariants("init", ord, spec, st, pos, nil)
	x.curLoopOrd = ord
	h, lc := x.havocLoop(n, nil, st, env, spec)
	x.assumeInvariants(spec, h, pos, nil)
	x.loopStack = append(x.loopStack, lc)
	// automatic invariant of counting loops `for i := e; …; i++` whose body never assigns i: i >= e
	if as, ok := n.Init.(*ast.AssignStmt); ok && as.Tok == token.DEFINE && len(as.Lhs) == 1 {
		if inc, ok := n.Post.(*ast.IncDecStmt); ok && inc.Tok == token.INC {
			if id, ok := as.Lhs[0].(*ast.Ident); ok {
				if pid, ok := inc.X.(*ast.Ident); ok && pid.Name == id.Name {
					obj := env.info.Defs[id]
					bodyVars, _, _, _ := x.assignedIn(n.Body, env.info)
					if obj != nil && !bodyVars[obj] && isInt(obj.Type()) {
						x.c.assume("true", app(">=", h.vars[obj].T, st.vars[obj].T))
					}
				}
			}
		}
	}
	defer func() { x.loopStack = x.loopStack[:len(x.loopStack)-1] }()
	exit := h.clone()
	body := h
	if n.Cond != nil {
		cond := x.c.define("loopc", "Bool", x.defaultType(x.eval(n.Cond, h, env)).T)
		exit = h.clone()
		exit.pc = x.namePC(and(h.pc, not(cond)))
		body = h.clone()
		body.pc = x.namePC(and(h.pc, cond))
	} else {
		exit = nil
	}
	var variant0 string
	if spec.Decreases != nil {
		x.c.inContract++
		variant0 = x.defaultType(x.eval(spec.Decreases.Expr, body, x.contractEnv(pos))).T
		x.c.inContract--
		variant0 = x.c.define("variant", "Int", variant0)
	}
	if len(spec.Invariants) > 0 {
		x.smoke(fmt.Sprintf("loop%d.body", ord), body, pos)
	}
	x.noteIterStart(ord, body)
	x.execGhost(spec.DoStart, body, x.contractEnv(pos))
	f := x.execBlock(n.Body.List, body, env)
	end := x.merge(f.normal, f.cont)
	if end != nil {
		x.execGhost(spec.DoEnd, end, x.contractEnv(pos))
		if n.Post != nil {
			end = x.execStmt(n.Post, end, env).normal
		}
		x.checkInvariants("preserve", ord, spec, end, pos, nil)
		x.checkAutoFrame(lc, end, ord, pos)
		if spec.Decreases != nil {
			x.c.inContract++
			v1 := x.defaultType(x.eval(spec.Decreases.Expr, end, x.contractEnv(pos))).T
			x.c.inContract--
			x.oblige(fmt.Sprintf("loop%d.decreases", ord), 0, pos, end, and(app(">=", variant0, "0"), app("<", v1, variant0)), "variant "+spec.Decreases.Text+" is bounded below and decreases")
		}
	}
	return Flow{normal: x.merge(exit, f.brk), ret: f.ret}
}

// fillIdiom recognises `for i := range X { X[i] = c }` / `for i, _ := range X { X[i] = c }` with c a constant and X a
// variable: its effect is exactly "every element of X becomes c" (arrays) resp. "every element of X[0:len] becomes c"
// (slices); it is executed by that rule instead of a loop cut, so no invariant is needed for it.
func (x *Exec) fillIdiom(n *ast.RangeStmt, st *State, env *Env) bool {
	if x.con != nil {
		if _, has := x.con.Loops[x.loopOrd[n]]; has {
			return false
		}
	}
	key, ok := n.Key.(*ast.Ident)
	if !ok || key.Name == "_" || n.Tok != token.DEFINE {
		return false
	}
	if n.Value != nil {
		if v, ok := n.Value.(*ast.Ident); !ok || v.Name != "_" {
			return false
		}
	}
	xid, ok := n.X.(*ast.Ident)
	if !ok || len(n.Body.List) != 1 {
		return false
	}
	as, ok := n.Body.List[0].(*ast.AssignStmt)
	if !ok || as.Tok != token.ASSIGN || len(as.Lhs) != 1 || len(as.Rhs) != 1 {
		return false
	}
	ix, ok := as.Lhs[0].(*ast.IndexExpr)
	if !ok {
		return false
	}
	bid, ok := ix.X.(*ast.Ident)
	iid, ok2 := ix.Index.(*ast.Ident)
	if !ok || !ok2 || env.info.Uses[bid] != env.info.Uses[xid] || env.info.Uses[iid] != env.info.Defs[key] {
		return false
	}
	tv, ok := env.info.Types[as.Rhs[0]]
	if !ok || tv.Value == nil {
		return false
	}
	coll := x.eval(n.X, st, env)
	switch u := coll.Ty.Underlying().(type) {
	case *types.Array:
		c := x.materialize(Val{C: tv.Value}, u.Elem())
		ks := "Int"
		if u.Len() == 256 {
			ks = sortBV8
		}
		x.assign(n.X, Val{T: x.c.constArray(ks, x.c.sortOf(u.Elem()), c.T), Ty: coll.Ty}, st, env)
		return true
	case *types.Slice:
		c := x.materialize(Val{C: tv.Value}, u.Elem())
		es := x.c.sortOf(u.Elem())
		ref, off, ln, _ := x.sliceParts(coll)
		h := x.heap(st, es)
		x.noteWrite(st, ref, n.Pos(), x.ord[ix])
		na := x.c.freshConst("A", "(Array Int "+es+")")
		old := x.c.define("arr", "(Array Int "+es+")", app("select", h, ref))
		x.c.assumes = append(x.c.assumes, fmt.Sprintf("(forall ((j Int)) (! (= (select %s j) (ite (and (<= %s j) (< j (+ %s %s))) %s (select %s j))) :pattern ((select %s j))))", na, off, off, ln, c.T, old, na))
		st.heaps[es] = x.c.define("H", x.c.heapName(es), app("store", h, ref, na))
		return true
	}
	return false
}

func (x *Exec) execRange(n *ast.RangeStmt, st *State, env *Env) Flow {
	if x.fillIdiom(n, st, env) {
		return Flow{normal: st}
	}
	spec, ord := x.loopSpec(n)
	pos := n.Body.Lbrace + 1
	coll := x.eval(n.X, st, env)
	var keyObj, valObj types.Object
	if id, ok := n.Key.(*ast.Ident); ok && id.Name != "_" {
		keyObj = env.info.Defs[id]
		if keyObj == nil {
			keyObj = env.info.Uses[id]
		}
	}
	if n.Value != nil {
		if id, ok := n.Value.(*ast.Ident); ok && id.Name != "_" {
			valObj = env.info.Defs[id]
			if valObj == nil {
				valObj = env.info.Uses[id]
			}
		}
	}
	if _, isChan := coll.Ty.Underlying().(*types.Chan); isChan {
		return x.execRangeChan(n, coll, keyObj, st, env, spec, ord)
	}
	if _, isMap := coll.Ty.Underlying().(*types.Map); isMap {
		return x.execRangeMap(n, coll, keyObj, valObj, st, env, spec, ord)
	}
	// snapshot of the collection: length evaluated once
	var length string
	isStr := false
	switch u := coll.Ty.Underlying().(type) {
	case *types.Slice:
		length = x.c.accessor("s.len", coll.T)
	case *types.Array:
		length = intLit(u.Len())
	case *types.Basic:
		if isString(coll.Ty) {
			length = app("gs.len", coll.T)
			isStr = true
		} else if isInt(coll.Ty) {
			panic(unsupported("range over int"))
		}
	default:
		panic(unsupported("range over " + coll.Ty.String()))
	}
	if nlit, ok := litInt(length); ok && nlit <= 8 && len(spec.Invariants) == 0 && len(spec.DoStart) == 0 && len(spec.DoEnd) == 0 {
		// fixed small trip count (array types, short literals): unrolled exactly - a complete treatment, not a bound
		return x.unrollRange(n, coll, int(nlit), keyObj, valObj, st, env)
	}
	length = x.c.define("rangelen", "Int", length)
	iname := fmt.Sprintf("range_i%d", ord)
	// the hidden index: before the loop 0
	names0 := map[string]Val{iname: {T: "0", Ty: tInt}, "range_i": {T: "0", Ty: tInt}, "range_n": {T: length, Ty: tInt}}
	// invariants are stated at the loop head, where the key variable (if any) equals the hidden index
	st0 := st.clone()
	if keyObj != nil {
		st0.vars[keyObj] = Val{T: "0", Ty: tInt}
	}
	x.checkInvariants("init", ord, spec, st0, pos, names0)
	x.curLoopOrd = ord
	h, lc := x.havocLoop(n.Body, nil, st, env, spec)
	x.loopStack = append(x.loopStack, lc)
	defer func() { x.loopStack = x.loopStack[:len(x.loopStack)-1] }()
	i := x.c.freshConst(iname, "Int")
	x.c.assume("true", and(app("<=", "0", i), app("<=", i, length)))
	namesI := map[string]Val{iname: {T: i, Ty: tInt}, "range_i": {T: i, Ty: tInt}, "range_n": {T: length, Ty: tInt}}
	if keyObj != nil {
		h.vars[keyObj] = Val{T: i, Ty: tInt}
	}
	x.assumeInvariants(spec, h, pos, namesI)
	exit := h.clone()
	exit.pc = x.namePC(and(h.pc, eq(i, length)))
	if keyObj != nil {
		// after the loop the key variable keeps its last value (len-1) if declared outside; with := it is out of scope
		delete(exit.vars, keyObj)
	}
	body := h.clone()
	body.pc = x.namePC(and(h.pc, app("<", i, length)))
	if valObj != nil {
		var ev Val
		switch coll.Ty.Underlying().(type) {
		case *types.Slice:
			ev = x.sliceRead(body, coll, i)
		case *types.Array:
			u := coll.Ty.Underlying().(*types.Array)
			idx := i
			if u.Len() == 256 {
				idx = app("(_ int2bv 8)", i)
			}
			ev = Val{T: app("select", coll.T, idx), Ty: u.Elem()}
		default:
			if isStr {
				// byte-wise iteration: sound for ASCII strings only (noted as an assumption)
				x.c.notes["range over string treated byte-wise (ASCII input assumed)"] = true
				ev = Val{T: app("rune.ofbyte", app("gs.at", coll.T, i)), Ty: types.Typ[types.Rune]}
				x.c.notes["range over a string yields one rune per byte (ASCII model: rune = byte value)"] = true
			}
		}
		body.vars[valObj] = Val{T: x.c.define(valObj.Name(), x.c.sortOf(valObj.Type()), ev.T), Ty: valObj.Type()}
	}
	var variant0 string
	_ = variant0
	oldBase := x.baseNames
	x.baseNames = mergeNames(x.baseNames, namesI)
	if len(spec.Invariants) > 0 {
		x.smoke(fmt.Sprintf("loop%d.body", ord), body, pos)
	}
	x.noteIterStart(ord, body)
	x.execGhost(spec.DoStart, body, x.contractEnv(pos))
	f := x.execBlock(n.Body.List, body, env)
	end := x.merge(f.normal, f.cont)
	if end != nil {
		x.execGhost(spec.DoEnd, end, x.contractEnv(pos))
	}
	x.baseNames = oldBase
	if end != nil {
		i1 := add(i, "1")
		names1 := map[string]Val{iname: {T: i1, Ty: tInt}, "range_i": {T: i1, Ty: tInt}, "range_n": {T: length, Ty: tInt}}
		if keyObj != nil {
			end.vars[keyObj] = Val{T: i1, Ty: tInt}
		}
		x.checkInvariants("preserve", ord, spec, end, pos, names1)
		x.checkAutoFrame(lc, end, ord, pos)
	}
	return Flow{normal: x.merge(exit, f.brk), ret: f.ret}
}

func mergeNames(a, b map[string]Val) map[string]Val {
	n := map[string]Val{}
	for k, v := range a {
		n[k] = v
	}
	for k, v := range b {
		n[k] = v
	}
	return n
}

var pureLib = map[string]bool{
	"errors.New": true, "fmt.Errorf": true, "strconv.Itoa": true, "strconv.FormatFloat": true, "strconv.Atoi": true,
	"strings.Join": true, "strings.ToUpper": true, "(*os.File).WriteString": true, "fmt.Fprintf": true, "fmt.Fprintln": true,
	"fmt.Fprint": true, "unicode/utf8.DecodeRune": true, "unicode.IsLetter": true, "math.Log": true, "math.IsNaN": true, "math.Floor": true, "sort.SearchInts": true, "sort.SearchStrings": true, "(github.com/biogo/hts/sam.CigarOp).Type": true, "(github.com/biogo/hts/sam.CigarOpType).String": true, "(github.com/biogo/hts/sam.CigarOp).Len": true,
	"(*bufio.Scanner).Bytes": true, "(*bufio.Scanner).Text": true, "(*bufio.Scanner).Err": true, "(*bufio.Scanner).Buffer": true,
}

// callEffects: what a call inside a loop body may change (used to decide what the loop havocs)
func (x *Exec) callEffects(n *ast.CallExpr, info *types.Info) (allocs, ghosts bool, heapSorts []string) {
	fn := calleeOf(n, info)
	if fn == nil {
		return true, true, []string{"*"}
	}
	full := fn.FullName()
	if pureLib[full] {
		return false, false, nil
	}
	if full == "io.WriteString" || full == "fmt.Fprintln" || full == "fmt.Fprint" {
		return false, true, nil
	}
	if full == "(io.Writer).Write" || full == "(*bufio.Scanner).Scan" || full == "(*encoding/csv.Reader).Read" || full == "(*github.com/biogo/hts/sam.Reader).Read" {
		return false, true, nil
	}
	if full == "(*github.com/biogo/hts/sam.Reader).Header" {
		return false, false, nil
	}
	if full == "strings.Fields" || full == "strings.Split" {
		return true, false, []string{sortStr}
	}
	if full == "(github.com/biogo/hts/sam.Seq).Expand" {
		return true, false, []string{sortBV8}
	}
	if full == "(*bufio.Scanner).Text" {
		return false, false, nil
	}
	if full == "sort.Slice" || full == "sort.SliceStable" || full == "sort.Sort" || full == "sort.Stable" {
		if t := info.TypeOf(n.Args[0]); t != nil {
			if sl, ok := t.Underlying().(*types.Slice); ok {
				return false, false, []string{x.c.sortOf(sl.Elem())}
			}
		}
		return true, true, []string{"*"}
	}
	if fi := x.g.funcByObj[fn.Origin()]; fi != nil {
		if _, isTable := x.g.tableByFn[fi.Key]; isTable {
			return false, false, nil
		}
		if con := x.g.cs.Funcs[fi.Key]; con != nil {
			if con.Inline {
				return false, false, nil
			}
			for i := 0; i < fi.Sig.Results().Len(); i++ {
				if containsSlice(fi.Sig.Results().At(i).Type(), 0) {
					allocs = true
					heapSorts = append(heapSorts, "*")
				}
			}
			for _, m := range con.Modifies {
				id, ok := m.Expr.(*ast.Ident)
				handled := false
				if ok {
					for i := 0; i < fi.Sig.Params().Len(); i++ {
						p := fi.Sig.Params().At(i)
						if p.Name() == id.Name {
							switch u := p.Type().Underlying().(type) {
							case *types.Chan, *types.Interface:
								ghosts = true
								handled = true
							case *types.Slice:
								heapSorts = append(heapSorts, x.c.sortOf(u.Elem()))
								handled = true
							}
						}
					}
				}
				if !handled {
					heapSorts = append(heapSorts, "*")
				}
			}
			return
		}
	}
	return true, true, []string{"*"}
}

// ghostHandlesIn: the channel / writer handles whose ghost state a loop body may change
func (x *Exec) ghostHandlesIn(body ast.Node, st *State, env *Env) (all bool, handles map[string]bool) {
	handles = map[string]bool{}
	info := env.info
	termOf := func(e ast.Expr) (string, bool) {
		if !isPath(e) {
			return "", false
		}
		var v Val
		func() {
			saved := x.c.inContract
			defer func() {
				x.c.inContract = saved
				recover()
			}()
			x.c.inContract++
			v = x.eval(e, st.clone(), env)
		}()
		return v.T, v.T != ""
	}
	ast.Inspect(body, func(nd ast.Node) bool {
		switch n := nd.(type) {
		case *ast.FuncLit:
			return false
		case *ast.GoStmt:
			if x.con != nil && x.con.Spawns {
				return false // skipped in spawns mode
			}
		case *ast.UnaryExpr:
			if n.Op == token.ARROW {
				all = true // a receive advances a family counter
			}
		case *ast.SendStmt:
			if t, ok := termOf(n.Chan); ok {
				handles[t] = true
			} else {
				all = true
			}
		case *ast.CallExpr:
			if id, ok := n.Fun.(*ast.Ident); ok {
				if _, isB := info.Uses[id].(*types.Builtin); isB {
					return true
				}
			}
			if tv, ok := info.Types[n.Fun]; ok && tv.IsType() {
				return true
			}
			fn := calleeOf(n, info)
			if fn == nil {
				all = true
				return true
			}
			full := fn.FullName()
			if pureLib[full] || full == "sort.Slice" || full == "sort.SliceStable" || full == "sort.Sort" || full == "sort.Stable" {
				return true
			}
			if full == "strings.Fields" || full == "strings.Split" || full == "(github.com/biogo/hts/sam.Seq).Expand" {
				return true
			}
			if full == "(*github.com/biogo/hts/sam.Reader).Header" {
				return true
			}
			if (full == "io.WriteString" || full == "fmt.Fprintln" || full == "fmt.Fprint") && len(n.Args) > 0 {
				if t, ok := termOf(n.Args[0]); ok {
					handles[t] = true
				} else {
					all = true
				}
				return true
			}
			if full == "(io.Writer).Write" || full == "(*bufio.Scanner).Scan" || full == "(*encoding/csv.Reader).Read" || full == "(*github.com/biogo/hts/sam.Reader).Read" {
				if sel, ok := n.Fun.(*ast.SelectorExpr); ok {
					if t, ok := termOf(sel.X); ok {
						handles[t] = true
						return true
					}
				}
				all = true
				return true
			}
			if fi := x.g.funcByObj[fn.Origin()]; fi != nil {
				if con := x.g.cs.Funcs[fi.Key]; con != nil {
					if con.Inline {
						return true
					}
					for _, m := range con.Modifies {
						id, ok := m.Expr.(*ast.Ident)
						if !ok {
							continue
						}
						for i := 0; i < fi.Sig.Params().Len() && i < len(n.Args); i++ {
							p := fi.Sig.Params().At(i)
							if p.Name() != id.Name {
								continue
							}
							switch p.Type().Underlying().(type) {
							case *types.Chan, *types.Interface:
								if t, ok := termOf(n.Args[i]); ok {
									handles[t] = true
								} else {
									all = true
								}
							}
						}
					}
					return true
				}
			}
			all = true
		}
		return true
	})
	return
}

// writtenThrough: does the loop body store into / append to / copy into the slice variable obj?
func (x *Exec) writtenThrough(body ast.Node, obj types.Object, info *types.Info) bool {
	found := false
	isObj := func(e ast.Expr) bool {
		for {
			if p, ok := e.(*ast.ParenExpr); ok {
				e = p.X
				continue
			}
			break
		}
		id, ok := e.(*ast.Ident)
		return ok && (info.Uses[id] == obj || info.Defs[id] == obj)
	}
	ast.Inspect(body, func(nd ast.Node) bool {
		switch n := nd.(type) {
		case *ast.AssignStmt:
			for _, l := range n.Lhs {
				if ix, ok := l.(*ast.IndexExpr); ok && isObj(ix.X) {
					found = true
				}
			}
		case *ast.IncDecStmt:
			if ix, ok := n.X.(*ast.IndexExpr); ok && isObj(ix.X) {
				found = true
			}
		case *ast.CallExpr:
			if id, ok := n.Fun.(*ast.Ident); ok && (id.Name == "append" || id.Name == "copy") && len(n.Args) > 0 && isObj(n.Args[0]) {
				found = true
			}
			// passed to a callee that may modify it
			if fn := calleeOf(n, info); fn != nil {
				for _, a := range n.Args {
					if isObj(a) && !pureLib[fn.FullName()] {
						found = true
					}
				}
			}
		}
		return true
	})
	return found
}

// unrollRange executes a range loop with a statically known small number of iterations exactly.
func (x *Exec) unrollRange(n *ast.RangeStmt, coll Val, trips int, keyObj, valObj types.Object, st *State, env *Env) Flow {
	var exit, ret *State
	cur := st
	for i := 0; i < trips && cur != nil; i++ {
		idx := intLit(int64(i))
		if keyObj != nil {
			cur.vars[keyObj] = Val{T: idx, Ty: tInt}
		}
		if valObj != nil {
			var ev Val
			switch u := coll.Ty.Underlying().(type) {
			case *types.Slice:
				ev = x.sliceRead(cur, coll, idx)
			case *types.Array:
				k := idx
				if u.Len() == 256 {
					k = bvLit(int64(i))
				}
				ev = Val{T: app("select", coll.T, k), Ty: u.Elem()}
			default:
				panic(unsupported("unrolled range over " + coll.Ty.String()))
			}
			cur.vars[valObj] = Val{T: x.c.define(valObj.Name(), x.c.sortOf(valObj.Type()), ev.T), Ty: valObj.Type()}
		}
		f := x.execBlock(n.Body.List, cur, env)
		exit = x.merge(exit, f.brk)
		ret = x.merge(ret, f.ret)
		cur = x.merge(f.normal, f.cont)
	}
	return Flow{normal: x.merge(exit, cur), ret: ret}
}
