#!/bin/bash
# Re-runs every kept seeded change against the checks of its property: apply to /repo, run, undo. Prints one line per seed.
cd /repo || exit 2
if [ -n "$(git status --porcelain)" ]; then echo "working tree of /repo is not clean"; exit 2; fi
for d in /verif/seeded/*/; do
  n=$(basename $d); prop=$(python3 -c "import json;print(json.load(open('$d/meta.json'))['property'])")
  git apply $d/patch.diff || { echo "$n: patch does not apply"; continue; }
  out=$(cd /verif && bin/gfverify check --property $prop --no-evidence -q 2>&1); code=$?
  nv=$(echo "$out" | grep -c "^VIOLATION"); nin=$(echo "$out" | grep "^VIOLATION" | grep -vc "no-failing-input-found")
  first=$(echo "$out" | grep "^VIOLATION" | head -1 | sed 's/.*replay=\/verif\/replay\///; s/\.json.*//')
  git checkout -- . 
  echo "$n property=$prop exit=$code violations=$nv with_failing_input=$nin first=$first"
done
