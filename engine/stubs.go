package main

func cmdSelftest(args []string) {}
