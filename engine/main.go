package main

import (
	"fmt"
	"golang.org/x/tools/go/packages"
)

func main() {
	cfg := &packages.Config{Mode: packages.NeedName | packages.NeedFiles | packages.NeedSyntax | packages.NeedTypes | packages.NeedTypesInfo | packages.NeedImports | packages.NeedDeps, Dir: "/repo", BuildFlags: []string{"-tags=verif"}}
	pkgs, err := packages.Load(cfg, "./pkg/...", "./cmd/...")
	fmt.Println(len(pkgs), err)
	for _, p := range pkgs { fmt.Println(p.PkgPath, len(p.Errors)) }
}
