//go:build verif

package updown

//@ # C19: return-style writers. result == nil implies every Write succeeded.
//@ func writeUpDownCatchment
//@   modifies w
//@   loop 1:
//@     invariant !failed(w)
//@   loop 2:
//@     invariant !failed(w)
//@   loop 3:
//@     invariant !failed(w)
//@   loop 4:
//@     invariant !failed(w)
//@   loop 5:
//@     invariant !failed(w)
//@   ensures [c19] implies(result == nil, !failed(w))

//@ func writeUpdownTable
//@   modifies w
//@   loop 1:
//@     invariant !failed(w)
//@   loop 2:
//@     invariant !failed(w)
//@   loop 3:
//@     invariant !failed(w)
//@   loop 4:
//@     invariant !failed(w)
//@   loop 5:
//@     invariant !failed(w)
//@   ensures [c19] implies(result == nil, !failed(w))

//@ spec posOf(k int) int uninterpreted

//@ # C10/C12/C19: updown list writer. Rows in idx order for every arrival order; ambiguity ranges rendered "a" when
//@ # start == end and "a-b" otherwise (asserted at each append); a failed Write is reported and done is withheld.
//@ func writeOutput
//@   modifies w, cErr, cWriteDone
//@   requires forall(k, 0, len(recv(cudLs)), 0 <= posOf(k) && posOf(k) < len(recv(cudLs)) && recv(cudLs)[posOf(k)].idx == k)
//@   requires forall(a, 0, len(recv(cudLs)), 0 <= recv(cudLs)[a].idx && recv(cudLs)[a].idx < len(recv(cudLs)) && posOf(recv(cudLs)[a].idx) == a)
//@   requires forall(a, 0, len(recv(cudLs)), len(recv(cudLs)[a].ambs) % 2 == 0)
//@   loop 1:
//@     invariant 0 <= counter && counter <= len(recv(cudLs)) && !in(outputMap, counter)
//@     invariant forallint(k, in(outputMap, k) == (counter <= k && k < len(recv(cudLs)) && posOf(k) < range_i))
//@     invariant forall(k, counter, len(recv(cudLs)), implies(posOf(k) < range_i, outputMap[k] == recv(cudLs)[posOf(k)]))
//@     invariant forall(k, 0, counter, posOf(k) < range_i)
//@     invariant !failed(w) && len(sent(cErr)) == 0 && len(sent(cWriteDone)) == 0
//@     invariant len(written(w)) == 1 + counter
//@   loop 2:
//@     invariant 0 <= counter && counter <= len(recv(cudLs))
//@     invariant forallint(k, in(outputMap, k) == (counter <= k && k < len(recv(cudLs)) && posOf(k) < range_i + 1))
//@     invariant forall(k, counter, len(recv(cudLs)), implies(posOf(k) < range_i + 1, outputMap[k] == recv(cudLs)[posOf(k)]))
//@     invariant forall(k, 0, counter, posOf(k) < range_i + 1)
//@     invariant !failed(w) && len(sent(cErr)) == 0 && len(sent(cWriteDone)) == 0
//@     invariant len(written(w)) == 1 + counter
//@     decreases len(recv(cudLs)) - counter
//@   loop 3:
//@     invariant 0 <= i && i % 2 == 0 && len(ambstrings) * 2 == i && i <= len(udLine.ambs) && len(udLine.ambs) % 2 == 0
//@     invariant forall(m, 0, len(ambstrings), ambstrings[m] == ite(udLine.ambs[2*m] == udLine.ambs[2*m+1], itoa(udLine.ambs[2*m]), itoa(udLine.ambs[2*m]) + "-" + itoa(udLine.ambs[2*m+1])))
//@     invariant 0 <= counter && counter < len(recv(cudLs)) && udLine == recv(cudLs)[posOf(counter)]
//@   before call:Write#2: assert [order] udLine == recv(cudLs)[posOf(counter)] && len(ambstrings) * 2 == len(udLine.ambs)
//@   after call:Write#2: assert [row] written(w)[len(written(w))-1] == udLine.id + "," + join(udLine.snps, "|") + "," + join(ambstrings, "|") + "," + itoa(udLine.snpCount) + "," + itoa(udLine.ambCount) + "\n"
//@   ensures [c19.reported] implies(failed(w), len(sent(cErr)) >= 1 && len(sent(cWriteDone)) == 0)
//@   ensures [c12.done] implies(!failed(w), len(sent(cErr)) == 0 && len(sent(cWriteDone)) == 1 && len(written(w)) == 1 + len(recv(cudLs)))
