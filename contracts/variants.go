//go:build verif

package variants

//@ # C05/C15: offsets between alignment and reference coordinates.
//@ # refToMSA[k] = gap columns left of the k-th reference base; MSAToRef[i] = gap columns left of column i at base
//@ # columns and 0 at gap columns (the shape pinned by TestGetMSAOffsets).
//@ func GetMSAOffsets
//@   ghost bases int = 0
//@   loop 1:
//@     invariant degappedLen == count(k, 0, range_i, refseq[k] != 244)
//@   loop 2:
//@     invariant gapsum == count(k, 0, i, refseq[k] == 244)
//@     invariant bases == count(k, 0, i, refseq[k] != 244)
//@     invariant bases + gapsum == i
//@     invariant len(refToMSA) == count(k, 0, len(refseq), refseq[k] != 244) && len(MSAToRef) == len(refseq)
//@     invariant forall(j, 0, i, implies(refseq[j] != 244, MSAToRef[j] == count(k, 0, j, refseq[k] == 244)))
//@     invariant forall(j, 0, len(refseq), implies(refseq[j] == 244, MSAToRef[j] == 0))
//@     invariant forall(j, 0, i, implies(refseq[j] != 244, refToMSA[count(k, 0, j, refseq[k] != 244)] == count(k, 0, j, refseq[k] == 244)))
//@     invariant disjoint(refToMSA, MSAToRef) && freshslice(refToMSA) && freshslice(MSAToRef)
//@     do-end if refseq[i] != 244 { bases++ }
//@   ensures len(result1) == count(k, 0, len(refseq), refseq[k] != 244)
//@   ensures len(result2) == len(refseq)
//@   ensures forall(j, 0, len(refseq), implies(refseq[j] != 244, result2[j] == count(k, 0, j, refseq[k] == 244)))
//@   ensures forall(j, 0, len(refseq), implies(refseq[j] == 244, result2[j] == 0))
//@   ensures forall(j, 0, len(refseq), implies(refseq[j] != 244, result1[count(k, 0, j, refseq[k] != 244)] == count(k, 0, j, refseq[k] == 244)))

//@ # C05: run-length scan. The ghost variables are the specification's own state machine over the columns seen so far:
//@ # refleft = reference bases to the left; gIns/gDel = a run is open; g*Ref = reference bases left of the run's start;
//@ # g*Len = its length; gEmit = records the specification has emitted.
//@ func getIndelsPair
//@   requires len(query) == len(ref) && len(offsetMSACoord) == len(ref)
//@   requires forall(j, 0, len(ref), implies(ref[j] != 244, offsetMSACoord[j] == count(k, 0, j, ref[k] == 244)))
//@   requires forall(j, 0, len(ref), implies(ref[j] == 244, offsetMSACoord[j] == 0))
//@   ghost refleft int = 0
//@   ghost gapleft int = 0
//@   ghost gIns bool = false
//@   ghost gInsRef int = 0
//@   ghost gInsLen int = 0
//@   ghost gDel bool = false
//@   ghost gDelRef int = 0
//@   ghost gDelLen int = 0
//@   ghost gEmit int = 0
//@   loop 1:
//@     invariant gapleft == count(k, 0, pos, ref[k] == 244) && refleft + gapleft == pos && refleft >= 0
//@     invariant insOpen == gIns && delOpen == gDel
//@     invariant implies(insOpen, insLength == gInsLen && insRefPos == gInsRef)
//@     invariant refBases == refleft
//@     invariant implies(delOpen, 0 <= delStart && delStart < pos && ref[delStart] != 244 && delLength == gDelLen && gDelRef == delStart - count(k, 0, delStart, ref[k] == 244))
//@     invariant len(variants) == gEmit
//@     do-end if ref[pos] == 244 { gapleft++; if query[pos] != 244 { if gIns { gInsLen++ } else { gIns = true; gInsRef = refleft; gInsLen = 1 } } } else { if gIns { gEmit++; gIns = false }; if query[pos] == 244 { if gDel { gDelLen++ } else { gDel = true; gDelRef = refleft; gDelLen = 1 } } else { if gDel { if gDelRef != 0 { gEmit++ }; gDel = false } }; refleft++ }
//@   after append#1: assert [ins.mid] gIns && variants[len(variants)-1].Changetype == "ins" && variants[len(variants)-1].Position == gInsRef && variants[len(variants)-1].Length == gInsLen
//@   after append#2: assert [del] gDel && gDelRef != 0 && variants[len(variants)-1].Changetype == "del" && variants[len(variants)-1].Position == gDelRef + 1 && variants[len(variants)-1].Length == gDelLen
//@   after append#3: assert [ins.end] gIns && variants[len(variants)-1].Changetype == "ins" && variants[len(variants)-1].Position == gInsRef && variants[len(variants)-1].Length == gInsLen
//@   ensures len(result) == ite(gIns, gEmit + 1, gEmit)
