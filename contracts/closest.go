//go:build verif

package closest

//@ # C19: a failed Write is never reported as success: result == nil implies no Write failed, for EVERY failure point
//@ # (the loop invariant !failed(w) covers every write index at once). Content (C06): one row per result.
//@ func writeClosest
//@   modifies w
//@   loop 1:
//@     invariant !failed(w)
//@     invariant implies(measure == "raw" || measure == "snp" || measure == "tn93", len(written(w)) == 1 + range_i && written(w)[0] == "query,closest,distance,SNPs\n")
//@   ensures [c19] implies(result == nil, !failed(w))
//@   ensures [rows] implies(result == nil && (measure == "raw" || measure == "snp" || measure == "tn93"), len(written(w)) == 1 + len(results) && written(w)[0] == "query,closest,distance,SNPs\n")

//@ func writeClosestN
//@   modifies w
//@   loop 1:
//@     invariant !failed(w) && len(written(w)) == 1 + range_i && written(w)[0] == "query,closest\n"
//@   ensures [c19] implies(result == nil, !failed(w))
//@   ensures [rows] implies(result == nil, len(written(w)) == 1 + len(results) && written(w)[0] == "query,closest\n")

//@ func writeClosestNTable
//@   modifies w
//@   loop 1:
//@     invariant !failed(w)
//@   loop 2:
//@     invariant !failed(w)
//@   loop 3:
//@     invariant !failed(w)
//@   loop 4:
//@     invariant !failed(w)
//@   ensures [c19] implies(result == nil, !failed(w))
