package main

import (
	"fmt"
	"go/ast"
	"go/token"
	"go/types"
	"os"
	"path/filepath"
	"sort"
	"strconv"
	"strings"

	"golang.org/x/tools/go/packages"
)

type FuncInfo struct {
	Key       string
	Pkg       *packages.Package
	Decl      *ast.FuncDecl
	Lit       *ast.FuncLit
	Body      *ast.BlockStmt
	Sig       *types.Signature
	Obj       *types.Func
	RecvName  string
	localObjs []types.Object
	Type      *ast.FuncType
}

type TableFunc struct {
	ID      int
	Func    *FuncInfo
	ElemSig *types.Signature
	Keys    []string
	Entries map[string]*FuncInfo
}

type Global struct {
	fset           *token.FileSet
	pkgs           map[string]*packages.Package // by package name
	cs             *ContractSet
	funcs          map[string]*FuncInfo
	funcByObj      map[*types.Func]*FuncInfo
	tables         []*TableFunc
	tableByFn      map[string]*TableFunc
	repo           string
	verifDir       string
	contractSource map[string]string // pkg -> path used
	lockedAnchors  map[string]AnchorLock
	lockedLocals   map[string][]string // function key -> "name|type" of every variable it declares, in source order, when the lock was written
	renameCache    map[string]map[string]types.Object
}

func loadAll(repo, verifDir string) (*Global, error) {
	g := &Global{pkgs: map[string]*packages.Package{}, funcs: map[string]*FuncInfo{}, funcByObj: map[*types.Func]*FuncInfo{}, tableByFn: map[string]*TableFunc{}, repo: repo, verifDir: verifDir, contractSource: map[string]string{}}
	g.fset = token.NewFileSet()
	readJSON(filepath.Join(verifDir, "solver_hints.json"), &solverHints)
	readJSON(filepath.Join(verifDir, "locals.lock.json"), &g.lockedLocals)
	readJSON(filepath.Join(verifDir, "anchors.lock.json"), &g.lockedAnchors)
	g.renameCache = map[string]map[string]types.Object{}
	cfg := &packages.Config{Mode: packages.NeedName | packages.NeedFiles | packages.NeedSyntax | packages.NeedTypes | packages.NeedTypesInfo | packages.NeedImports | packages.NeedDeps,
		Dir: repo, Fset: g.fset, BuildFlags: []string{"-tags=verif"},
		Env: append(os.Environ(), "GOFLAGS=-mod=mod", "GOPROXY=off", "GOSUMDB=off", "GOTOOLCHAIN=local")}
	pkgs, err := packages.Load(cfg, "./pkg/...", "./cmd/...")
	if err != nil {
		return nil, err
	}
	for _, p := range pkgs {
		if len(p.Errors) > 0 {
			return nil, fmt.Errorf("package %s does not type-check: %v", p.PkgPath, p.Errors[0])
		}
		g.pkgs[p.Name] = p
	}
	// contracts: pkg/<p>/zz_verif_contracts.go in the repo, else the mirror in /verif/contracts/<p>.go
	g.cs = newContractSet()
	for name, p := range g.pkgs {
		dir := ""
		if len(p.GoFiles) > 0 {
			dir = filepath.Dir(p.GoFiles[0])
		}
		inRepo := filepath.Join(dir, "zz_verif_contracts.go")
		mirror := filepath.Join(verifDir, "contracts", name+".go")
		_, errRepo := os.Stat(inRepo)
		_, errMirror := os.Stat(mirror)
		switch {
		case errRepo == nil && errMirror == nil:
			a, _ := os.ReadFile(inRepo)
			b, _ := os.ReadFile(mirror)
			if string(a) != string(b) {
				return nil, fmt.Errorf("engine error: contract file %s differs from its mirror %s", inRepo, mirror)
			}
			if err := g.cs.parseFile(inRepo, name); err != nil {
				return nil, err
			}
			g.contractSource[name] = inRepo
		case errRepo == nil:
			if err := g.cs.parseFile(inRepo, name); err != nil {
				return nil, err
			}
			g.contractSource[name] = inRepo
		case errMirror == nil:
			if err := g.cs.parseFile(mirror, name); err != nil {
				return nil, err
			}
			g.contractSource[name] = mirror + " (mirror; repo copy absent)"
		}
	}
	specs, _ := filepath.Glob(filepath.Join(verifDir, "spec", "*.spec"))
	sort.Strings(specs)
	for _, s := range specs {
		if err := g.cs.parseFile(s, ""); err != nil {
			return nil, err
		}
	}
	g.cs.expandAliases()
	// index functions
	for _, p := range pkgs {
		for _, f := range p.Syntax {
			for _, d := range f.Decls {
				if gd, ok := d.(*ast.GenDecl); ok && gd.Tok == token.VAR {
					// function literals stored in a field of a package-level variable's composite literal
					// (`var xCmd = &cobra.Command{RunE: func(...) {...}}`) are units of their own: <pkg>.<var>.<field>
					for _, sp := range gd.Specs {
						vs, ok := sp.(*ast.ValueSpec)
						if !ok || len(vs.Names) != 1 || len(vs.Values) != 1 {
							continue
						}
						ast.Inspect(vs.Values[0], func(nd ast.Node) bool {
							kv, ok := nd.(*ast.KeyValueExpr)
							if !ok {
								return true
							}
							kid, ok1 := kv.Key.(*ast.Ident)
							lit, ok2 := kv.Value.(*ast.FuncLit)
							if !ok1 || !ok2 {
								return true
							}
							if sig, ok := p.TypesInfo.TypeOf(lit).(*types.Signature); ok {
								key := p.Name + "." + vs.Names[0].Name + "." + kid.Name
								g.funcs[key] = &FuncInfo{Key: key, Pkg: p, Lit: lit, Body: lit.Body, Sig: sig, Type: lit.Type}
							}
							return false
						})
					}
					continue
				}
				fd, ok := d.(*ast.FuncDecl)
				if !ok || fd.Body == nil {
					continue
				}
				obj, _ := p.TypesInfo.Defs[fd.Name].(*types.Func)
				if obj == nil {
					continue
				}
				key := p.Name + "." + fd.Name.Name
				recvName := ""
				if fd.Recv != nil && len(fd.Recv.List) > 0 {
					rt := fd.Recv.List[0].Type
					if st, ok := rt.(*ast.StarExpr); ok {
						rt = st.X
					}
					if id, ok := rt.(*ast.Ident); ok {
						key = p.Name + "." + id.Name + "." + fd.Name.Name
					}
					if len(fd.Recv.List[0].Names) > 0 {
						recvName = fd.Recv.List[0].Names[0].Name
					}
				}
				fi := &FuncInfo{Key: key, Pkg: p, Decl: fd, Body: fd.Body, Sig: obj.Type().(*types.Signature), Obj: obj, RecvName: recvName, Type: fd.Type}
				g.funcs[key] = fi
				g.funcByObj[obj] = fi
				g.findTable(fi)
			}
		}
	}
	return g, nil
}

// expandAliases turns `func name["A","B"]` into one contract per key.
func (cs *ContractSet) expandAliases() {
	for _, key := range append([]string{}, cs.Order...) {
		i := strings.Index(key, "[")
		if i < 0 || !strings.Contains(key[i:], ",") {
			continue
		}
		con := cs.Funcs[key]
		delete(cs.Funcs, key)
		for _, k := range strings.Split(strings.Trim(key[i:], "[]"), ",") {
			k = strings.Trim(strings.TrimSpace(k), `"`)
			nc := *con
			nc.Key = key[:i] + "[" + k + "]"
			cs.Funcs[nc.Key] = &nc
			cs.Order = append(cs.Order, nc.Key)
		}
	}
	// normalise single-key form name["M"] -> name[M]
	for _, key := range append([]string{}, cs.Order...) {
		if con, ok := cs.Funcs[key]; ok && strings.Contains(key, `["`) {
			nk := strings.NewReplacer(`["`, "[", `"]`, "]").Replace(key)
			delete(cs.Funcs, key)
			con.Key = nk
			cs.Funcs[nk] = con
			cs.Order = append(cs.Order, nk)
		}
	}
}

// findTable recognises `func f() map[string]func(...)… { m := map[...]func...{ "K": func(...){...}, ... }; return m }`
func (g *Global) findTable(fi *FuncInfo) {
	if fi.Sig.Params().Len() != 0 || fi.Sig.Results().Len() != 1 {
		return
	}
	m, ok := fi.Sig.Results().At(0).Type().Underlying().(*types.Map)
	if !ok {
		return
	}
	esig, ok := m.Elem().Underlying().(*types.Signature)
	if !ok {
		return
	}
	var lit *ast.CompositeLit
	ast.Inspect(fi.Body, func(n ast.Node) bool {
		if cl, ok := n.(*ast.CompositeLit); ok && lit == nil {
			if t := fi.Pkg.TypesInfo.TypeOf(cl); t != nil && types.Identical(t, fi.Sig.Results().At(0).Type()) {
				lit = cl
				return false
			}
		}
		return true
	})
	if lit == nil {
		return
	}
	tf := &TableFunc{ID: len(g.tables) + 1, Func: fi, ElemSig: esig, Entries: map[string]*FuncInfo{}}
	for _, el := range lit.Elts {
		kv, ok := el.(*ast.KeyValueExpr)
		if !ok {
			return
		}
		kl, ok := kv.Key.(*ast.BasicLit)
		fl, ok2 := kv.Value.(*ast.FuncLit)
		if !ok || !ok2 {
			return
		}
		k, _ := strconv.Unquote(kl.Value)
		e := &FuncInfo{Key: fi.Key + "[" + k + "]", Pkg: fi.Pkg, Lit: fl, Body: fl.Body, Sig: fi.Pkg.TypesInfo.TypeOf(fl).(*types.Signature), Type: fl.Type}
		tf.Keys = append(tf.Keys, k)
		tf.Entries[k] = e
		g.funcs[e.Key] = e
	}
	g.tables = append(g.tables, tf)
	g.tableByFn[fi.Key] = tf
}

// ---------- per-function driver ----------

type FuncResult struct {
	Key           string
	Obligations   []*Obligation
	OutsideSubset string
	Ctx           *Ctx
	Used          map[string]bool
	Trusted       bool
}

func (g *Global) verifyFunc(key string) (res *FuncResult) {
	if strings.HasPrefix(key, "lemma.") {
		for _, l := range g.cs.Lemmas {
			if "lemma."+l.Name == key {
				return g.verifyLemma(l)
			}
		}
		return &FuncResult{Key: key, OutsideSubset: "lemma not found"}
	}
	fi := g.funcs[key]
	res = &FuncResult{Key: key}
	if fi == nil {
		res.OutsideSubset = "function not found in the working tree"
		return
	}
	con := g.cs.Funcs[key]
	if con != nil && con.Trusted {
		res.Trusted = true
		return
	}
	c := newCtx(g)
	x := &Exec{g: g, c: c, fi: fi, con: con, names: map[string]int{}, ord: map[ast.Node]int{}, loopOrd: map[ast.Node]int{}, anchors: map[ast.Stmt][]string{}, usedContracts: map[string]bool{}}
	res.Ctx = c
	res.Used = x.usedContracts
	defer func() {
		if r := recover(); r != nil {
			if u, ok := r.(unsupportedErr); ok {
				res.OutsideSubset = u.msg
				res.Obligations = x.obligs
				return
			}
			panic(r)
		}
	}()
	x.prepass()
	x.run()
	if con != nil && con.Deterministic {
		why := g.nondeterminism(fi, map[*FuncInfo]bool{})
		o := &Obligation{Name: key + "/deterministic", Kind: "deterministic", Where: fi.Key, Human: "the function's call tree has no source of nondeterminism (map iteration, goroutines, select, channel operations, package-level writes, unknown callees)", PC: "true", Goal: "false", Ctx: c, Fn: key}
		if why == "" {
			o.Status, o.Backend = "unsat", "syntactic"
		} else {
			o.Status, o.Backend, o.Model = "sat", "syntactic", why
			o.Human += ": " + why
		}
		x.obligs = append(x.obligs, o)
	}
	res.Obligations = x.obligs
	return
}

// deterministic library callees (results depend on the arguments only)
var detLib = map[string]bool{"sort": true, "strconv": true, "strings": true, "errors": true, "math": true, "bytes": true, "unicode": true, "unicode/utf8": true, "fmt.Sprintf": true, "fmt.Sprint": true, "fmt.Errorf": true}

// nondeterminism walks fi and every repository function it calls; it returns "" when none of them ranges over a map,
// starts a goroutine, selects, uses a channel, assigns a package-level variable or calls something unknown.
func (g *Global) nondeterminism(fi *FuncInfo, seen map[*FuncInfo]bool) string {
	if seen[fi] {
		return ""
	}
	seen[fi] = true
	info := fi.Pkg.TypesInfo
	why := ""
	at := func(n ast.Node) string {
		p := g.fset.Position(n.Pos())
		return fmt.Sprintf("%s:%d", shortPath(p.Filename), p.Line)
	}
	ast.Inspect(fi.Body, func(n ast.Node) bool {
		if why != "" {
			return false
		}
		switch nd := n.(type) {
		case *ast.RangeStmt:
			if t := info.TypeOf(nd.X); t != nil {
				switch t.Underlying().(type) {
				case *types.Map:
					why = "range over a map at " + at(nd)
				case *types.Chan:
					why = "range over a channel at " + at(nd)
				}
			}
		case *ast.GoStmt:
			why = "go statement at " + at(nd)
		case *ast.SelectStmt:
			why = "select at " + at(nd)
		case *ast.SendStmt:
			why = "channel send at " + at(nd)
		case *ast.UnaryExpr:
			if nd.Op == token.ARROW {
				why = "channel receive at " + at(nd)
			}
		case *ast.AssignStmt:
			for _, l := range nd.Lhs {
				if id, ok := l.(*ast.Ident); ok {
					if v, ok := info.Uses[id].(*types.Var); ok && v.Parent() == fi.Pkg.Types.Scope() {
						why = "assignment to package-level variable " + id.Name + " at " + at(nd)
					}
				}
			}
		case *ast.Ident:
			if v, ok := info.Uses[nd].(*types.Var); ok && v.Pkg() != nil && v.Parent() == v.Pkg().Scope() {
				// reading a package-level variable: allowed only if it is never assigned in its package (checked for error values elsewhere)
				if !g.neverAssigned(v) {
					why = "reads package-level variable " + nd.Name + " that is assigned somewhere, at " + at(nd)
				}
			}
		case *ast.CallExpr:
			if tv, ok := info.Types[nd.Fun]; ok && tv.IsType() {
				return true // conversion
			}
			if id, ok := nd.Fun.(*ast.Ident); ok {
				if _, isBuiltin := info.Uses[id].(*types.Builtin); isBuiltin {
					return true
				}
			}
			fn := calleeOf(nd, info)
			if fn == nil {
				// a call through a function value: the closure tables of this repository are built by deterministic builders;
				// anything else is unknown
				if _, ok := nd.Fun.(*ast.IndexExpr); ok {
					return true
				}
				why = "call through a function value at " + at(nd)
				return false
			}
			if callee := g.funcByObj[fn]; callee != nil {
				if w := g.nondeterminism(callee, seen); w != "" {
					why = callee.Key + ": " + w
				}
				return true
			}
			pkg := ""
			if fn.Pkg() != nil {
				pkg = fn.Pkg().Path()
			}
			if detLib[pkg] || detLib[pkg+"."+fn.Name()] {
				return true
			}
			if sig, ok := fn.Type().(*types.Signature); ok && sig.Recv() != nil {
				// methods of library value types used here (biogo sam accessors, strings.Builder …) read their receiver only
				if strings.HasPrefix(pkg, "github.com/biogo/hts/sam") || pkg == "strings" || pkg == "bytes" {
					return true
				}
			}
			why = "call to " + fn.FullName() + " (not known to be deterministic) at " + at(nd)
		}
		return true
	})
	return why
}

// neverAssigned: the package-level variable is initialised at its declaration and never assigned in its package's functions.
func (g *Global) neverAssigned(v *types.Var) bool {
	for _, fi := range g.funcs {
		if fi.Pkg.Types != v.Pkg() {
			continue
		}
		bad := false
		ast.Inspect(fi.Body, func(n ast.Node) bool {
			switch nd := n.(type) {
			case *ast.AssignStmt:
				for _, l := range nd.Lhs {
					if id, ok := l.(*ast.Ident); ok && fi.Pkg.TypesInfo.Uses[id] == v {
						bad = true
					}
				}
			case *ast.IncDecStmt:
				if id, ok := nd.X.(*ast.Ident); ok && fi.Pkg.TypesInfo.Uses[id] == v {
					bad = true
				}
			case *ast.UnaryExpr:
				if nd.Op == token.AND {
					if id, ok := nd.X.(*ast.Ident); ok && fi.Pkg.TypesInfo.Uses[id] == v {
						bad = true
					}
				}
			}
			return !bad
		})
		if bad {
			return false
		}
	}
	return true
}

// prepass assigns source-order ordinals to constructs and collects anchors and local objects.
func (x *Exec) prepass() {
	info := x.fi.Pkg.TypesInfo
	x.fi.localObjs = nil // FuncInfo is shared between runs of the same function in one process
	counts := map[string]int{}
	loopN := 0
	var stmtStack []ast.Stmt
	anchorCount := map[string]int{}
	var anchorNode ast.Node
	x.anchorCalls = map[string]*ast.CallExpr{}
	addAnchor := func(kind string) {
		anchorCount[kind]++
		a := fmt.Sprintf("%s#%d", kind, anchorCount[kind])
		if ce, ok := anchorNode.(*ast.CallExpr); ok {
			x.anchorCalls[a] = ce
		}
		var fpn ast.Node = anchorNode
		if fpn == nil && len(stmtStack) > 0 {
			fpn = stmtStack[len(stmtStack)-1]
		}
		defer func() { x.noteAnchor(kind, anchorCount[kind], fpn) }()
		for i := len(stmtStack) - 1; i >= 0; i-- {
			switch stmtStack[i].(type) {
			case *ast.AssignStmt, *ast.ExprStmt, *ast.ReturnStmt, *ast.SendStmt, *ast.IncDecStmt, *ast.DeclStmt, *ast.GoStmt, *ast.DeferStmt:
				x.anchors[stmtStack[i]] = append(x.anchors[stmtStack[i]], a)
				return
			}
		}
	}
	goLits := map[*ast.FuncLit]bool{}
	ast.Inspect(x.fi.Body, func(nd ast.Node) bool {
		if gs, ok := nd.(*ast.GoStmt); ok {
			if fl, ok := gs.Call.Fun.(*ast.FuncLit); ok && len(gs.Call.Args) == 0 {
				goLits[fl] = true
			}
		}
		return true
	})
	var visit func(n ast.Node) bool
	visit = func(n ast.Node) bool {
		if n == nil {
			return true
		}
		if fl, ok := n.(*ast.FuncLit); ok && fl != x.fi.Lit {
			// spawns mode: the calls made by a parameterless closure started with `go func() {…}()` are anchorable, so
			// that arg(i) points can pin what the worker is started with (the closure body itself is not executed)
			if !(x.con != nil && x.con.Spawns && goLits[fl]) {
				return false
			}
		}
		bump := func(kind string) {
			counts[kind]++
			x.ord[n] = counts[kind]
			x.siteRecs = append(x.siteRecs, anchorRec{kind, counts[kind], n})
		}
		switch nd := n.(type) {
		case *ast.ForStmt, *ast.RangeStmt:
			loopN++
			x.loopOrd[n] = loopN
			x.loopNodes = append(x.loopNodes, n)
		case *ast.IndexExpr:
			bump("index")
		case *ast.SliceExpr:
			bump("slice")
		case *ast.BinaryExpr:
			if nd.Op == token.QUO || nd.Op == token.REM {
				bump("div")
			}
		case *ast.ReturnStmt:
			bump("return")
		case *ast.SendStmt:
			bump("send")
		case *ast.CallExpr:
			name := exprString(nd.Fun)
			if i := strings.LastIndex(name, "."); i >= 0 {
				name = name[i+1:]
			}
			bump("call:" + name)
		case *ast.Ident:
			if obj := info.Defs[nd]; obj != nil {
				if _, ok := obj.(*types.Var); ok {
					x.fi.localObjs = append(x.fi.localObjs, obj)
				}
			}
		}
		return true
	}
	// custom traversal maintaining a statement stack for anchors
	var walk func(n ast.Node)
	walk = func(n ast.Node) {
		ast.Inspect(n, func(m ast.Node) bool {
			if m == nil {
				return true
			}
			if m != n {
				if s, ok := m.(ast.Stmt); ok {
					stmtStack = append(stmtStack, s)
					visit(m)
					switch m.(type) {
					case *ast.ReturnStmt:
						addAnchor("return")
					case *ast.SendStmt:
						addAnchor("send")
					case *ast.AssignStmt:
						as := m.(*ast.AssignStmt)
						if len(as.Lhs) == 1 {
							if id, ok := as.Lhs[0].(*ast.Ident); ok && id.Name != "_" {
								k := "assign:" + id.Name
								anchorCount[k]++
								x.anchors[s] = append(x.anchors[s], fmt.Sprintf("%s#%d", k, anchorCount[k]))
								x.noteAnchor(k, anchorCount[k], as)
								// alias under the name the variable had when the lock was written
								obj := info.Defs[id]
								if obj == nil {
									obj = info.Uses[id]
								}
								for oldName, o := range x.g.renameMap(x.fi) {
									if o == obj {
										x.anchors[s] = append(x.anchors[s], fmt.Sprintf("assign:%s#%d", oldName, anchorCount[k]))
									}
								}
							}
						}
					case *ast.SwitchStmt:
						anchorCount["switch"]++
						x.anchors[s] = append(x.anchors[s], fmt.Sprintf("switch#%d", anchorCount["switch"]))
						x.noteAnchor("switch", anchorCount["switch"], headerOf(m))
					case *ast.IfStmt:
						anchorCount["if"]++
						x.anchors[s] = append(x.anchors[s], fmt.Sprintf("if#%d", anchorCount["if"]))
						x.noteAnchor("if", anchorCount["if"], headerOf(m))
					}
					walk(m)
					stmtStack = stmtStack[:len(stmtStack)-1]
					return false
				}
				if fl, ok := m.(*ast.FuncLit); ok && fl != x.fi.Lit {
					if !(x.con != nil && x.con.Spawns && goLits[fl]) {
						return false
					}
				}
				visit(m)
				if ce, ok := m.(*ast.CallExpr); ok {
					name := exprString(ce.Fun)
					if i := strings.LastIndex(name, "."); i >= 0 {
						name = name[i+1:]
					}
					anchorNode = ce
					if name == "append" {
						addAnchor("append")
					} else {
						addAnchor("call:" + name)
					}
					anchorNode = nil
				}
			}
			return true
		})
	}
	if x.fi.Type != nil && x.fi.Type.Params != nil {
		for _, f := range x.fi.Type.Params.List {
			for _, id := range f.Names {
				if obj := info.Defs[id]; obj != nil {
					x.fi.localObjs = append(x.fi.localObjs, obj)
				}
			}
		}
	}
	walk(x.fi.Body)
	x.stabiliseOrdinals()
}

// headerOf: the part of a compound statement that identifies it (condition / tag, init), not its body.
func headerOf(n ast.Node) ast.Node {
	switch s := n.(type) {
	case *ast.IfStmt:
		return &ast.IfStmt{Init: s.Init, Cond: s.Cond, Body: &ast.BlockStmt{}}
	case *ast.SwitchStmt:
		return &ast.SwitchStmt{Init: s.Init, Tag: s.Tag, Body: &ast.BlockStmt{}}
	case *ast.ForStmt:
		return &ast.ForStmt{Init: s.Init, Cond: s.Cond, Post: s.Post, Body: &ast.BlockStmt{}}
	case *ast.RangeStmt:
		return &ast.RangeStmt{Key: s.Key, Value: s.Value, Tok: s.Tok, X: s.X, Body: &ast.BlockStmt{}}
	}
	return n
}

type anchorRec struct {
	kind string
	k    int
	node ast.Node
}

func (x *Exec) noteAnchor(kind string, k int, n ast.Node) {
	x.anchorRecs = append(x.anchorRecs, anchorRec{kind, k, n})
}

// fingerprint: a structural rendering of a node in which the function's own variables appear under the names they had
// when the lock was written (so that a pure rename does not change it).
func (x *Exec) fingerprint(n ast.Node) string {
	if n == nil {
		return ""
	}
	info := x.fi.Pkg.TypesInfo
	on := x.g.oldNames(x.fi)
	var b strings.Builder
	ast.Inspect(n, func(m ast.Node) bool {
		switch v := m.(type) {
		case nil:
			b.WriteString(")")
			return true
		case *ast.Ident:
			name := v.Name
			obj := info.Defs[v]
			if obj == nil {
				obj = info.Uses[v]
			}
			if o, ok := on[obj]; ok {
				name = o
			}
			b.WriteString("(" + name)
		case *ast.BasicLit:
			b.WriteString("(" + v.Value)
		case *ast.BinaryExpr:
			b.WriteString("(" + v.Op.String())
		case *ast.UnaryExpr:
			b.WriteString("(" + v.Op.String())
		case *ast.AssignStmt:
			b.WriteString("(" + v.Tok.String())
		case *ast.IncDecStmt:
			b.WriteString("(" + v.Tok.String())
		case *ast.BranchStmt:
			b.WriteString("(" + v.Tok.String())
		default:
			b.WriteString(fmt.Sprintf("(%T", m))
		}
		return true
	})
	return b.String()
}

// AnchorLock: fingerprints of a function's loops and anchored statements, in source order, when the lock was written.
type AnchorLock struct {
	Loops []string            `json:"loops"`
	Kinds map[string][]string `json:"kinds"`
	Sites map[string][]string `json:"sites"` // index / slice / div / call:… expressions (ordinals of site-derived obligations)
}

func (x *Exec) currentAnchorLock() AnchorLock {
	al := AnchorLock{Kinds: map[string][]string{}, Sites: map[string][]string{}}
	for _, r := range x.siteRecs {
		al.Sites[r.kind] = append(al.Sites[r.kind], x.fingerprint(headerOf(r.node)))
	}
	for _, n := range x.loopNodes {
		al.Loops = append(al.Loops, x.fingerprint(headerOf(n)))
	}
	for _, r := range x.anchorRecs {
		al.Kinds[r.kind] = append(al.Kinds[r.kind], x.fingerprint(r.node))
	}
	return al
}

// lcsMap aligns cur with rec (longest common subsequence): result[i] = index in rec matched with cur[i], or -1.
func lcsMap(rec, cur []string) []int {
	n, m := len(rec), len(cur)
	dp := make([][]int, n+1)
	for i := range dp {
		dp[i] = make([]int, m+1)
	}
	for i := n - 1; i >= 0; i-- {
		for j := m - 1; j >= 0; j-- {
			if rec[i] == cur[j] {
				dp[i][j] = dp[i+1][j+1] + 1
			} else if dp[i+1][j] >= dp[i][j+1] {
				dp[i][j] = dp[i+1][j]
			} else {
				dp[i][j] = dp[i][j+1]
			}
		}
	}
	out := make([]int, m)
	for j := range out {
		out[j] = -1
	}
	i, j := 0, 0
	for i < n && j < m {
		if rec[i] == cur[j] {
			out[j] = i
			i++
			j++
		} else if dp[i+1][j] >= dp[i][j+1] {
			i++
		} else {
			j++
		}
	}
	// items that changed in place: inside every gap between two matched pairs, when as many recorded items as current
	// items are unmatched, they are paired in order (a statement that was edited keeps its ordinal)
	pi, pj := 0, 0 // start of the current gap in rec / cur
	flush := func(ei, ej int) {
		if ei-pi == ej-pj {
			for k := 0; k < ej-pj; k++ {
				out[pj+k] = pi + k
			}
		}
	}
	for j := 0; j < m; j++ {
		if out[j] >= 0 {
			flush(out[j], j)
			pi, pj = out[j]+1, j+1
		}
	}
	flush(n, m)
	return out
}

// stabiliseOrdinals renumbers loops and statement anchors so that those present when the lock was written keep the
// ordinals they had then (contracts and obligation names refer to them); loops/statements added since get fresh ordinals
// after the recorded ones. Nothing happens when the function's fingerprints are unchanged or were never recorded.
func (x *Exec) stabiliseOrdinals() {
	rec, ok := x.g.lockedAnchors[x.fi.Key]
	if !ok {
		return
	}
	cur := x.currentAnchorLock()
	// loops
	same := len(rec.Loops) == len(cur.Loops)
	for i := 0; same && i < len(rec.Loops); i++ {
		same = rec.Loops[i] == cur.Loops[i]
	}
	if !same {
		mp := lcsMap(rec.Loops, cur.Loops)
		next := len(rec.Loops)
		for j, n := range x.loopNodes {
			if mp[j] >= 0 {
				x.loopOrd[n] = mp[j] + 1
			} else {
				next++
				x.loopOrd[n] = next
			}
		}
		x.c.notes[x.fi.Key+": loops were added, removed or reordered since the lock was written; unchanged loops keep their recorded ordinals"] = true
	}
	// expression sites (ordinals in the names of site-derived obligations)
	siteByKind := map[string][]int{}
	for idx, r := range x.siteRecs {
		siteByKind[r.kind] = append(siteByKind[r.kind], idx)
	}
	for kind, idxs := range siteByKind {
		rk := rec.Sites[kind]
		ck := cur.Sites[kind]
		eq := len(rk) == len(ck)
		for i := 0; eq && i < len(rk); i++ {
			eq = rk[i] == ck[i]
		}
		if eq || rec.Sites == nil {
			continue
		}
		mp := lcsMap(rk, ck)
		next := len(rk)
		for pos, idx := range idxs {
			r := x.siteRecs[idx]
			if pos < len(mp) && mp[pos] >= 0 {
				x.ord[r.node] = mp[pos] + 1
			} else {
				next++
				x.ord[r.node] = next
			}
		}
	}
	// anchors
	rename := map[string]string{}
	byKind := map[string][]int{}
	for idx, r := range x.anchorRecs {
		byKind[r.kind] = append(byKind[r.kind], idx)
	}
	changed := false
	for kind, idxs := range byKind {
		rk := rec.Kinds[kind]
		ck := cur.Kinds[kind]
		eq := len(rk) == len(ck)
		for i := 0; eq && i < len(rk); i++ {
			eq = rk[i] == ck[i]
		}
		if eq {
			continue
		}
		changed = true
		mp := lcsMap(rk, ck)
		next := len(rk)
		for pos, idx := range idxs {
			r := x.anchorRecs[idx]
			oldName := fmt.Sprintf("%s#%d", kind, r.k)
			var newK int
			if pos < len(mp) && mp[pos] >= 0 {
				newK = mp[pos] + 1
			} else {
				next++
				newK = next
			}
			rename[oldName] = fmt.Sprintf("%s#%d", kind, newK)
		}
	}
	if !changed {
		return
	}
	for st, names := range x.anchors {
		out := make([]string, len(names))
		for i, nm := range names {
			if nn, ok := rename[nm]; ok {
				out[i] = nn
			} else {
				out[i] = nm
			}
		}
		x.anchors[st] = out
	}
	calls := map[string]*ast.CallExpr{}
	for nm, ce := range x.anchorCalls {
		if nn, ok := rename[nm]; ok {
			calls[nn] = ce
		} else {
			calls[nm] = ce
		}
	}
	x.anchorCalls = calls
	x.c.notes[x.fi.Key+": statements were added, removed or reordered since the lock was written; unchanged anchors keep their recorded ordinals"] = true
}

func (x *Exec) run() {
	c := x.c
	fi := x.fi
	info := fi.Pkg.TypesInfo
	st := &State{pc: "true", vars: map[types.Object]Val{}, heaps: map[string]string{}, gh: map[string]Val{}}
	x.alloc0 = c.freshConst("alloc0", "Int")
	c.assume("true", app(">", x.alloc0, "0"))
	st.alloc = x.alloc0
	x.entry = st // provisional (heap() registers initial heaps there)
	// parameters
	bind := func(v *types.Var) {
		if v == nil || v.Name() == "" || v.Name() == "_" {
			return
		}
		val := Val{T: c.freshConst("p_"+v.Name(), c.sortOf(v.Type())), Ty: v.Type()}
		st.vars[v] = val
		x.assumeWF(st, val)
		x.initHandle(st, val, v.Name())
		// a slice of slices: every row existing at entry is a well-formed slice over an array allocated before the call
		if outer, ok := v.Type().Underlying().(*types.Slice); ok {
			if _, ok := outer.Elem().Underlying().(*types.Slice); ok {
				h := x.heap(st, sortSlice)
				row := "(select (select " + h + " (s.ref " + val.T + ")) j)"
				c.assumes = append(c.assumes, fmt.Sprintf("(forall ((j Int)) (! (and (<= 0 (s.ref %s)) (< (s.ref %s) %s) (<= 0 (s.off %s)) (<= 0 (s.len %s)) (<= (s.len %s) (s.cap %s))) :pattern (%s)))", row, row, x.alloc0, row, row, row, row, row))
			}
			// a slice of structs: the slice-typed fields of every element likewise
			if su, ok := outer.Elem().Underlying().(*types.Struct); ok {
				ssort := c.sortOf(outer.Elem())
				h := x.heap(st, ssort)
				el := "(select (select " + h + " (s.ref " + val.T + ")) j)"
				for i := 0; i < su.NumFields(); i++ {
					if _, isSl := su.Field(i).Type().Underlying().(*types.Slice); isSl {
						f := "(" + c.fieldAcc(ssort, su.Field(i).Name()) + " " + el + ")"
						c.assumes = append(c.assumes, fmt.Sprintf("(forall ((j Int)) (! (and (<= 0 (s.ref %s)) (< (s.ref %s) %s) (<= 0 (s.off %s)) (<= 0 (s.len %s)) (<= (s.len %s) (s.cap %s))) :pattern (%s)))", f, f, x.alloc0, f, f, f, f, el))
					}
				}
			}
		}
	}
	if fi.Sig.Recv() != nil {
		bind(fi.Sig.Recv())
	}
	for i := 0; i < fi.Sig.Params().Len(); i++ {
		bind(fi.Sig.Params().At(i))
	}
	// results: pseudo objects, named results initialised to zero
	for i := 0; i < fi.Sig.Results().Len(); i++ {
		r := fi.Sig.Results().At(i)
		ro := types.NewVar(token.NoPos, fi.Pkg.Types, fmt.Sprintf("result%d", i+1), r.Type())
		x.results = append(x.results, ro)
		if r.Name() != "" && r.Name() != "_" {
			st.vars[r] = Val{T: c.zero(r.Type()), Ty: r.Type()}
		}
	}
	// spawns mode: the ghost logs of every family of channels this call makes exist from the start
	x.famElem = map[string]types.Type{}
	if x.con != nil && x.con.Spawns {
		ast.Inspect(fi.Body, func(nd ast.Node) bool {
			if ce, ok := nd.(*ast.CallExpr); ok {
				if id, ok := ce.Fun.(*ast.Ident); ok && id.Name == "make" && len(ce.Args) > 0 {
					if u, ok := info.TypeOf(ce.Args[0]).Underlying().(*types.Chan); ok {
						x.famState(st, c.sortOf(u.Elem()), u.Elem())
					}
				}
			}
			return true
		})
	}
	// process-wide streams used by the body get writer ghost state at entry
	for _, nm := range []string{"Stdout"} {
		uses := false
		ast.Inspect(fi.Body, func(nd ast.Node) bool {
			if se, ok := nd.(*ast.SelectorExpr); ok && se.Sel.Name == nm {
				if id, ok := se.X.(*ast.Ident); ok && id.Name == "os" {
					uses = true
				}
			}
			return !uses
		})
		if uses {
			x.initHandle(st, x.stdHandle(nm), "os"+nm)
		}
	}
	x.baseNames = map[string]Val{}
	env := &Env{info: info}
	x.codeEnv = env
	cpos := fi.Body.Lbrace + 1
	// ghost declarations
	if x.con != nil {
		for _, g := range x.con.Ghosts {
			ty := x.resolveTypeText(g.Type)
			if strings.TrimSpace(g.Init) == "arbitrary" {
				// an unconstrained ghost constant: whatever is proved about it holds for every value of its type
				st.gh["g:"+g.Name] = Val{T: c.freshConst("g_"+g.Name, c.sortOf(ty)), Ty: ty}
				continue
			}
			e, err := parseExprText(g.Init)
			if err != nil {
				panic(unsupported(err.Error()))
			}
			x.c.inContract++
			v := x.coerce(x.eval(e, st, x.contractEnv(cpos)), ty)
			x.c.inContract--
			st.gh["g:"+g.Name] = Val{T: v.T, Ty: ty}
		}
		// requires
		x.c.inContract++
		var reqs []string
		for _, r := range x.con.Requires {
			t := x.defaultType(x.eval(r.Expr, st, x.contractEnv(cpos))).T
			c.assume("true", t)
			reqs = append(reqs, t)
		}
		// modifies
		for _, m := range x.con.Modifies {
			if id, ok := m.Expr.(*ast.Ident); ok && id.Name == "everything" {
				x.modAll = true
				continue
			}
			v := x.eval(m.Expr, st, x.contractEnv(cpos))
			if v.Ty == nil {
				continue
			}
			if _, ok := v.Ty.Underlying().(*types.Slice); ok {
				x.modRefs = append(x.modRefs, c.accessor("s.ref", v.T))
			}
		}
		x.c.inContract--
		// vacuity: the preconditions must be satisfiable
		o := &Obligation{Name: fi.Key + "/vacuity.requires", Kind: "vacuity", PC: "true", Goal: "false", NAssume: len(c.assumes), Ctx: c, Fn: fi.Key, Vacuity: true, Human: "preconditions and axioms are satisfiable"}
		x.obligs = append(x.obligs, o)
	}
	x.entry = st.clone()
	x.usedPoints = map[int]bool{}
	var fl Flow
	if x.con != nil && x.con.Prefix {
		fl = x.execPrefix(fi.Body.List, st, env)
	} else {
		fl = x.execBlock(fi.Body.List, st, env)
	}
	if x.con != nil && !x.inlineMode {
		for ord := range x.con.Loops {
			found := false
			for _, o := range x.loopOrd {
				if o == ord {
					found = true
				}
			}
			if !found {
				panic(unsupported(fmt.Sprintf("contract refers to loop %d which does not exist in %s", ord, fi.Key)))
			}
		}
		for i, p := range x.con.Points {
			if !x.usedPoints[i] {
				panic(unsupported("contract refers to program point " + p.When + " " + p.Anchor + " which does not exist (or is unreachable) in " + fi.Key))
			}
		}
	}
	final := fl.ret
	if fi.Sig.Results().Len() == 0 {
		final = x.merge(final, fl.normal)
	} else if fl.normal != nil && fl.normal.pc != "false" {
		// falling off the end of a function with results cannot happen in compiled code
	}
	if x.con != nil && x.con.Prefix {
		return // only the prefix was executed: no postconditions
	}
	if x.inlineMode {
		if final != nil && len(x.results) == 1 {
			if v, ok := final.vars[x.results[0]]; ok {
				x.inlineResult = &v
			}
		}
		return
	}
	if final == nil || x.con == nil {
		return
	}
	x.smoke("exit", final, fi.Body.Rbrace)
	names := map[string]Val{}
	for i, ro := range x.results {
		if v, ok := final.vars[ro]; ok {
			names[fmt.Sprintf("result%d", i+1)] = v
			if i == 0 {
				names["result"] = v
			}
		}
	}
	penv := &Env{contract: true, names: names, old: x.entry, scopePos: fi.Body.Rbrace}
	// parameters in postconditions denote their entry values (Go passes by value); reassigned parameters are
	// shadowed by binding the names explicitly
	for obj, v := range x.entry.vars {
		if _, isParam := obj.(*types.Var); isParam {
			if _, clash := names[obj.Name()]; !clash && x.isParam(obj) {
				if _, isPtr := obj.Type().Underlying().(*types.Pointer); isPtr {
					continue // a pointer parameter denotes its pointee's final state in postconditions; old(p.f) is the entry value
				}
				names[obj.Name()] = v
				// … also under the name the parameter had when the lock was written
				for oldName, o := range x.g.renameMap(fi) {
					if o == obj {
						if _, clash := names[oldName]; !clash {
							names[oldName] = v
						}
					}
				}
			}
		}
	}
	for i, e := range x.con.Ensures {
		x.c.inContract++
		t := x.defaultType(x.eval(e.Expr, final, penv)).T
		x.c.inContract--
		label := e.Label
		if label == "" {
			label = strconv.Itoa(i + 1)
		}
		x.oblige("post."+label, 0, fi.Body.Rbrace, final, t, e.Text)
	}
}

func (x *Exec) isParam(obj types.Object) bool {
	sig := x.fi.Sig
	for i := 0; i < sig.Params().Len(); i++ {
		if sig.Params().At(i) == obj {
			return true
		}
	}
	return sig.Recv() == obj
}

// initHandle creates ghost state for channel and writer parameters.
func (x *Exec) initHandle(st *State, v Val, name string) {
	c := x.c
	switch u := v.Ty.Underlying().(type) {
	case *types.Chan:
		es := c.sortOf(u.Elem())
		arr := c.freshConst("recv_"+name, "(Array Int "+es+")")
		n := c.freshConst("recv_"+name+".n", "Int")
		c.assume("true", app(">=", n, "0"))
		st.gh["recv:"+v.T] = Val{Seq: &SeqVal{Arr: arr, N: n, Elem: u.Elem(), ESort: es}}
		// everything reachable from a value that will be received already exists when the function starts: slices inside
		// received structs are well-formed and point to arrays allocated before this call
		if su, ok := u.Elem().Underlying().(*types.Struct); ok {
			ssort := c.sortOf(u.Elem())
			for i := 0; i < su.NumFields(); i++ {
				if _, isSl := su.Field(i).Type().Underlying().(*types.Slice); isSl {
					f := "(" + c.fieldAcc(ssort, su.Field(i).Name()) + " (select " + arr + " j))"
					c.assumes = append(c.assumes, fmt.Sprintf("(forall ((j Int)) (! (and (<= 0 (s.ref %s)) (< (s.ref %s) %s) (<= 0 (s.off %s)) (<= 0 (s.len %s)) (<= (s.len %s) (s.cap %s))) :pattern ((select %s j))))", f, f, x.alloc0, f, f, f, f, arr))
				}
			}
		} else if _, isSl := u.Elem().Underlying().(*types.Slice); isSl {
			f := "(select " + arr + " j)"
			c.assumes = append(c.assumes, fmt.Sprintf("(forall ((j Int)) (! (and (<= 0 (s.ref %s)) (< (s.ref %s) %s) (<= 0 (s.off %s)) (<= 0 (s.len %s)) (<= (s.len %s) (s.cap %s))) :pattern ((select %s j))))", f, f, x.alloc0, f, f, f, f, arr))
		}
		st.gh["recvpos:"+v.T] = Val{T: "0", Ty: tInt}
		sarr := c.freshConst("sent_"+name, "(Array Int "+es+")")
		st.gh["sent:"+v.T] = Val{Seq: &SeqVal{Arr: sarr, N: "0", Elem: u.Elem(), ESort: es}}
	case *types.Interface:
		if v.Ty.String() == "io.Writer" {
			st.gh["failed:"+v.T] = Val{T: "false", Ty: tBool}
			warr := c.freshConst("wlog_"+name, "(Array Int Str)")
			st.gh["written:"+v.T] = Val{Seq: &SeqVal{Arr: warr, N: "0", Elem: tString, ESort: sortStr}}
		}
	}
}

// famState creates (once per element sort) the ghost logs of the family of channels made by a `spawns` function:
// famarr maps a channel handle to the sequence of values sent on it, famn to their number (all 0 at entry).
func (x *Exec) famState(st *State, es string, elem types.Type) {
	if _, ok := st.gh["famarr:"+es]; ok {
		return
	}
	x.famElem[es] = elem
	st.gh["famarr:"+es] = Val{T: x.c.freshConst("famarr0", "(Array Int (Array Int "+es+"))")}
	st.gh["famn:"+es] = Val{T: "((as const (Array Int Int)) 0)"}
	st.gh["famenv:"+es] = Val{T: x.c.freshConst("famenv", "(Array Int (Array Int "+es+"))")}
	st.gh["famrecvn:"+es] = Val{T: "((as const (Array Int Int)) 0)"}
}

// famView is sent(h) for a family channel: the per-handle slice of the family logs.
func (x *Exec) famView(st *State, es string, elem types.Type, h string) (Val, bool) {
	arrs, ok := st.gh["famarr:"+es]
	if !ok {
		return Val{}, false
	}
	return Val{Seq: &SeqVal{Arr: app("select", arrs.T, h), N: app("select", st.gh["famn:"+es].T, h), Elem: elem, ESort: es}}, true
}

// recvFrom (spawns mode): `<-ch` on a channel of the family this call made. The values arriving on such a channel are an
// environment stream famenv[h] fixed for the whole call (what the goroutines send is not this function's business; what
// it may rely on is stated as `assume` points); the k-th receive on h yields famenv[h][k]. A receive never blocks and
// the channel is never closed in this model.
func (x *Exec) recvFrom(ch Val, st *State, node ast.Node) Val {
	u, ok := ch.Ty.Underlying().(*types.Chan)
	if !ok {
		panic(unsupported("receive from a non-channel"))
	}
	es := x.c.sortOf(u.Elem())
	env, ok := st.gh["famenv:"+es]
	if !ok || x.con == nil || !x.con.Spawns {
		panic(unsupported("channel receive outside a range loop (only channels made by a spawns-mode function)"))
	}
	if _, param := st.gh["recv:"+ch.T]; param {
		panic(unsupported("receive expression on a channel parameter"))
	}
	x.safety("famrecv", node, st, app("<=", x.alloc0, ch.T), "receive through a channel expression: the channel is one this call made")
	ns := st.gh["famrecvn:"+es].T
	cnt := app("select", ns, ch.T)
	v := Val{T: x.c.define("rcv", es, app("select", app("select", env.T, ch.T), cnt)), Ty: u.Elem()}
	st.gh["famrecvn:"+es] = Val{T: x.c.define("famrecvn", "(Array Int Int)", app("store", ns, ch.T, add(cnt, "1")))}
	x.assumeWF(st, v)
	return v
}

func (x *Exec) execSend(n *ast.SendStmt, st *State, env *Env) {
	ch := x.eval(n.Chan, st, env)
	u, ok := ch.Ty.Underlying().(*types.Chan)
	if !ok {
		panic(unsupported("send on non-channel"))
	}
	v := x.coerce(x.eval(n.Value, st, env), u.Elem())
	if v.Nil {
		v = Val{T: x.c.zero(u.Elem()), Ty: u.Elem()}
	}
	k := "sent:" + ch.T
	cur, ok := st.gh[k]
	if !ok {
		es := x.c.sortOf(u.Elem())
		if _, fam := st.gh["famarr:"+es]; fam {
			// a channel of the family made by this call (spawns mode), reached through any expression: the handle must
			// be one this call made, so that the logs of the channel parameters stay complete
			x.safety("famsend", n, st, app("<=", x.alloc0, ch.T), "send through a computed channel expression: the channel is one this call made")
			arrs, ns := st.gh["famarr:"+es].T, st.gh["famn:"+es].T
			cnt := app("select", ns, ch.T)
			st.gh["famarr:"+es] = Val{T: x.c.define("famarr", "(Array Int (Array Int "+es+"))", app("store", arrs, ch.T, app("store", app("select", arrs, ch.T), cnt, v.T)))}
			st.gh["famn:"+es] = Val{T: x.c.define("famn", "(Array Int Int)", app("store", ns, ch.T, add(cnt, "1")))}
			x.c.notes["channel sends never block; channels are ghost sequences (sequential model)"] = true
			return
		}
		panic(unsupported("send on a channel without ghost state: " + exprString(n.Chan)))
	}
	s := *cur.Seq
	s.Arr = x.c.define("sent", "(Array Int "+s.ESort+")", app("store", cur.Seq.Arr, cur.Seq.N, v.T))
	s.N = x.c.define("sent.n", "Int", add(cur.Seq.N, "1"))
	st.gh[k] = Val{Seq: &s, Ty: cur.Ty}
	x.c.notes["channel sends never block; channels are ghost sequences (sequential model)"] = true
}

func (x *Exec) execRangeChan(n *ast.RangeStmt, ch Val, keyObj types.Object, st *State, env *Env, spec *LoopSpec, ord int) Flow {
	c := x.c
	pos := n.Body.Lbrace + 1
	rk := "recv:" + ch.T
	pk := "recvpos:" + ch.T
	seq, ok := st.gh[rk]
	if !ok {
		panic(unsupported("range over a channel without ghost state"))
	}
	length := seq.Seq.N
	start := st.gh[pk].T
	iname := fmt.Sprintf("range_i%d", ord)
	names0 := map[string]Val{iname: {T: start, Ty: tInt}, "range_i": {T: start, Ty: tInt}, "range_n": {T: length, Ty: tInt}}
	x.checkInvariants("init", ord, spec, st, pos, names0)
	x.curLoopOrd = ord
	h, lc := x.havocLoop(n.Body, nil, st, env, spec)
	x.loopStack = append(x.loopStack, lc)
	defer func() { x.loopStack = x.loopStack[:len(x.loopStack)-1] }()
	i := c.freshConst(iname, "Int")
	c.assume("true", and(app("<=", start, i), app("<=", i, length)))
	h.gh[pk] = Val{T: i, Ty: tInt}
	namesI := map[string]Val{iname: {T: i, Ty: tInt}, "range_i": {T: i, Ty: tInt}, "range_n": {T: length, Ty: tInt}}
	x.assumeInvariants(spec, h, pos, namesI)
	exit := h.clone()
	exit.pc = x.namePC(and(h.pc, eq(i, length)))
	body := h.clone()
	body.pc = x.namePC(and(h.pc, app("<", i, length)))
	body.gh[pk] = Val{T: add(i, "1"), Ty: tInt}
	if keyObj != nil {
		ev := Val{T: app("select", seq.Seq.Arr, i), Ty: seq.Seq.Elem}
		ev.T = c.define(keyObj.Name(), seq.Seq.ESort, ev.T)
		x.assumeWF(body, ev)
		body.vars[keyObj] = ev
	}
	oldBase := x.baseNames
	x.baseNames = mergeNames(x.baseNames, namesI)
	if len(spec.Invariants) > 0 {
		x.smoke(fmt.Sprintf("loop%d.body", ord), body, pos)
	}
	x.noteIterStart(ord, body)
	x.execGhost(spec.DoStart, body, x.contractEnv(pos))
	f := x.execBlock(n.Body.List, body, env)
	end := x.merge(f.normal, f.cont)
	if end != nil {
		x.execGhost(spec.DoEnd, end, x.contractEnv(pos))
	}
	x.baseNames = oldBase
	if end != nil {
		i1 := add(i, "1")
		names1 := map[string]Val{iname: {T: i1, Ty: tInt}, "range_i": {T: i1, Ty: tInt}, "range_n": {T: length, Ty: tInt}}
		x.checkInvariants("preserve", ord, spec, end, pos, names1)
		x.checkAutoFrame(lc, end, ord, pos)
	}
	c.notes["range over a channel iterates a finite ghost sequence of unknown length (sequential model)"] = true
	return Flow{normal: x.merge(exit, f.brk), ret: f.ret}
}

func (x *Exec) execRangeMap(n *ast.RangeStmt, m Val, keyObj, valObj types.Object, st *State, env *Env, spec *LoopSpec, ord int) Flow {
	c := x.c
	pos := n.Body.Lbrace + 1
	u := m.Ty.Underlying().(*types.Map)
	ms := c.mapSort(u)
	ks := c.sortOf(u.Key())
	dom := c.define("dom", "(Array "+ks+" Bool)", c.accessor("|"+ms+".dom|", m.T))
	val := c.accessor("|"+ms+".val|", m.T)
	length := c.define("maplen", "Int", c.accessor("|"+ms+".size|", m.T))
	// arbitrary duplicate-free enumeration of the domain
	enum := c.freshName("mapkeys")
	inv := c.freshName("mapidx")
	c.declare(enum, fmt.Sprintf("(declare-fun %s (Int) %s)", enum, ks))
	c.declare(inv, fmt.Sprintf("(declare-fun %s (%s) Int)", inv, ks))
	c.assumes = append(c.assumes,
		fmt.Sprintf("(forall ((j Int)) (! (=> (and (<= 0 j) (< j %s)) (and (select %s (%s j)) (= (%s (%s j)) j))) :pattern ((%s j))))", length, dom, enum, inv, enum, enum),
		fmt.Sprintf("(forall ((k %s)) (! (=> (select %s k) (and (<= 0 (%s k)) (< (%s k) %s) (= (%s (%s k)) k))) :pattern ((%s k))))", ks, dom, inv, inv, length, enum, inv, inv),
		app(">=", length, "0"))
	iname := fmt.Sprintf("range_i%d", ord)
	mk := func(i string) map[string]Val {
		return map[string]Val{iname: {T: i, Ty: tInt}, "range_i": {T: i, Ty: tInt}, "range_n": {T: length, Ty: tInt}}
	}
	x.baseFuncs = mergeNames(x.baseFuncs, map[string]Val{"mapkey": {T: enum, Ty: u.Key()}, "mapidx": {T: inv, Ty: u.Key()}})
	x.checkInvariants("init", ord, spec, st, pos, mk("0"))
	// the map itself must not be modified in the loop
	vars, _, _, _ := x.assignedIn(n.Body, env.info)
	if id, ok := n.X.(*ast.Ident); ok {
		if obj := env.info.Uses[id]; obj != nil && vars[obj] {
			panic(unsupported("map modified while ranging over it"))
		}
	}
	x.curLoopOrd = ord
	h, lc := x.havocLoop(n.Body, nil, st, env, spec)
	x.loopStack = append(x.loopStack, lc)
	defer func() { x.loopStack = x.loopStack[:len(x.loopStack)-1] }()
	i := c.freshConst(iname, "Int")
	c.assume("true", and(app("<=", "0", i), app("<=", i, length)))
	x.assumeInvariants(spec, h, pos, mk(i))
	exit := h.clone()
	exit.pc = x.namePC(and(h.pc, eq(i, length)))
	body := h.clone()
	body.pc = x.namePC(and(h.pc, app("<", i, length)))
	kterm := c.define("key", ks, app(enum, i))
	if keyObj != nil {
		body.vars[keyObj] = Val{T: kterm, Ty: u.Key()}
	}
	if valObj != nil {
		body.vars[valObj] = Val{T: c.define("val", c.sortOf(u.Elem()), app("select", val, kterm)), Ty: u.Elem()}
	}
	oldBase := x.baseNames
	x.baseNames = mergeNames(x.baseNames, mk(i))
	if len(spec.Invariants) > 0 {
		x.smoke(fmt.Sprintf("loop%d.body", ord), body, pos)
	}
	x.noteIterStart(ord, body)
	x.execGhost(spec.DoStart, body, x.contractEnv(pos))
	f := x.execBlock(n.Body.List, body, env)
	end := x.merge(f.normal, f.cont)
	if end != nil {
		x.execGhost(spec.DoEnd, end, x.contractEnv(pos))
	}
	x.baseNames = oldBase
	if end != nil {
		x.checkInvariants("preserve", ord, spec, end, pos, mk(add(i, "1")))
		x.checkAutoFrame(lc, end, ord, pos)
	}
	c.notes["range over a map iterates an arbitrary duplicate-free enumeration of its keys"] = true
	return Flow{normal: x.merge(exit, f.brk), ret: f.ret}
}

// verifyLemma checks a closed lemma over spec functions and inlined table builders.
func (g *Global) verifyLemma(l *Lemma) *FuncResult {
	key := "lemma." + l.Name
	res := &FuncResult{Key: key}
	var pkg *packages.Package
	if l.Pkg != "" {
		pkg = g.pkgs[l.Pkg]
	}
	if pkg == nil {
		pkg = g.pkgs["encoding"]
	}
	c := newCtx(g)
	fi := &FuncInfo{Key: key, Pkg: pkg, Sig: types.NewSignatureType(nil, nil, nil, nil, nil, false)}
	x := &Exec{g: g, c: c, fi: fi, names: map[string]int{}, ord: map[ast.Node]int{}, loopOrd: map[ast.Node]int{}, anchors: map[ast.Stmt][]string{}, usedContracts: map[string]bool{}, baseNames: map[string]Val{}}
	res.Ctx = c
	res.Used = x.usedContracts
	defer func() {
		if r := recover(); r != nil {
			if u, ok := r.(unsupportedErr); ok {
				res.OutsideSubset = u.msg
				res.Obligations = x.obligs
				return
			}
			panic(r)
		}
	}()
	st := &State{pc: "true", vars: map[types.Object]Val{}, heaps: map[string]string{}, gh: map[string]Val{}}
	x.alloc0 = c.freshConst("alloc0", "Int")
	st.alloc = x.alloc0
	x.entry = st
	x.modAll = true
	env := &Env{contract: true, names: map[string]Val{}, pkg: pkg.Types}
	for _, v := range l.Vars {
		ty := x.resolveTypeText(v.Type)
		env.names[v.Name] = Val{T: c.freshConst("v_"+v.Name, c.sortOf(ty)), Ty: ty}
	}
	x.c.inContract++
	t := x.defaultType(x.eval(l.Expr.Expr, st, env)).T
	x.c.inContract--
	x.obligs = append(x.obligs, &Obligation{Name: key, Kind: "lemma", Where: l.Where, Human: l.Expr.Text, PC: "true", Goal: t, NAssume: len(c.assumes), Ctx: c, Fn: key})
	res.Obligations = x.obligs
	return res
}

// errVarInitNonNil: the package-level variable is declared with an errors.New / fmt.Errorf initialiser and is never assigned.
func (g *Global) errVarInitNonNil(v *types.Var) bool {
	for _, p := range g.pkgs {
		if p.Types != v.Pkg() {
			continue
		}
		initOK := false
		assigned := false
		for _, f := range p.Syntax {
			ast.Inspect(f, func(n ast.Node) bool {
				switch nd := n.(type) {
				case *ast.ValueSpec:
					for i, id := range nd.Names {
						if p.TypesInfo.Defs[id] == v && i < len(nd.Values) {
							if ce, ok := nd.Values[i].(*ast.CallExpr); ok {
								name := exprString(ce.Fun)
								if name == "errors.New" || name == "fmt.Errorf" {
									initOK = true
								}
							}
						}
					}
				case *ast.AssignStmt:
					for _, l := range nd.Lhs {
						if id, ok := l.(*ast.Ident); ok && p.TypesInfo.Uses[id] == v {
							assigned = true
						}
					}
				}
				return true
			})
		}
		return initOK && !assigned
	}
	return false
}

// execPrefix executes the top-level statements of an orchestration function up to (not including) the first statement
// that is outside the sequential subset (go, select, …). Obligations and point assertions met on the way are genuine;
// nothing is claimed about the rest of the function.
func (x *Exec) execPrefix(list []ast.Stmt, st *State, env *Env) Flow {
	fl := Flow{normal: st}
	for _, s := range list {
		if fl.normal == nil || fl.normal.pc == "false" {
			break // every path has returned or reached its first go statement
		}
		stop := false
		var f Flow
		func() {
			defer func() {
				if r := recover(); r != nil {
					if u, ok := r.(unsupportedErr); ok {
						p := x.g.fset.Position(s.Pos())
						x.c.notes[fmt.Sprintf("%s: only the statements before %s:%d are verified (%s)", x.fi.Key, shortPath(p.Filename), p.Line, u.msg)] = true
						stop = true
						return
					}
					panic(r)
				}
			}()
			f = x.execStmtWithPoints(s, fl.normal, env)
		}()
		if stop {
			break
		}
		fl.normal = f.normal
		fl.ret = x.merge(fl.ret, f.ret)
	}
	return fl
}

// declList: every variable the function declares (parameters, named results, locals), in source order.
func (g *Global) declList(fi *FuncInfo) []types.Object {
	info := fi.Pkg.TypesInfo
	var objs []types.Object
	add := func(id *ast.Ident) {
		if id == nil || id.Name == "_" {
			return
		}
		if obj, ok := info.Defs[id].(*types.Var); ok && obj != nil {
			objs = append(objs, obj)
		}
	}
	if fi.Decl != nil && fi.Decl.Recv != nil {
		for _, f := range fi.Decl.Recv.List {
			for _, id := range f.Names {
				add(id)
			}
		}
	}
	if fi.Type != nil {
		for _, fl := range []*ast.FieldList{fi.Type.Params, fi.Type.Results} {
			if fl == nil {
				continue
			}
			for _, f := range fl.List {
				for _, id := range f.Names {
					add(id)
				}
			}
		}
	}
	ast.Inspect(fi.Body, func(n ast.Node) bool {
		if id, ok := n.(*ast.Ident); ok {
			add(id)
		}
		return true
	})
	sort.SliceStable(objs, func(i, j int) bool { return objs[i].Pos() < objs[j].Pos() })
	return objs
}

func (g *Global) declStrings(fi *FuncInfo) []string {
	var out []string
	q := func(p *types.Package) string { return p.Name() }
	for _, o := range g.declList(fi) {
		out = append(out, o.Name()+"|"+types.TypeString(o.Type(), q))
	}
	return out
}

// oldNames: for every variable the function declares now, the name it had when the lock was written (only when the
// function still declares the same number of variables with the same types in the same order). Used to resolve contract
// names that were declared several times in the function (loop counters): by scope, innermost first.
func (g *Global) oldNames(fi *FuncInfo) map[types.Object]string {
	rec := g.lockedLocals[fi.Key]
	cur := g.declList(fi)
	curS := g.declStrings(fi)
	if len(rec) == 0 || len(rec) != len(cur) {
		return nil
	}
	m := map[types.Object]string{}
	for i := range rec {
		ri := strings.SplitN(rec[i], "|", 2)
		ci := strings.SplitN(curS[i], "|", 2)
		if len(ri) != 2 || ri[1] != ci[1] {
			return nil
		}
		m[cur[i]] = ri[0]
	}
	return m
}

// renameMap: names the contract may still use for variables that were merely renamed since the lock was written. Only
// when the function declares the same number of variables with the same types in the same order as recorded; a recorded
// name maps to the variable now declared at its position if the name was unique in the function and has changed.
func (g *Global) renameMap(fi *FuncInfo) map[string]types.Object {
	if m, ok := g.renameCache[fi.Key]; ok {
		return m
	}
	var m map[string]types.Object
	rec := g.lockedLocals[fi.Key]
	cur := g.declList(fi)
	curS := g.declStrings(fi)
	if len(rec) > 0 && len(rec) == len(cur) {
		same := true
		count := map[string]int{}
		for i := range rec {
			ri := strings.SplitN(rec[i], "|", 2)
			ci := strings.SplitN(curS[i], "|", 2)
			if len(ri) != 2 || ri[1] != ci[1] {
				same = false
				break
			}
			count[ri[0]]++
		}
		if same {
			m = map[string]types.Object{}
			for i := range rec {
				old := strings.SplitN(rec[i], "|", 2)[0]
				if old != cur[i].Name() && count[old] == 1 {
					m[old] = cur[i]
				}
			}
		}
	}
	g.renameCache[fi.Key] = m
	return m
}
