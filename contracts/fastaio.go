//go:build verif

package fastaio

//@ spec posOf(k int) int uninterpreted

//@ # C12/C19/C01: re-ordering FASTA writer. For every arrival order (idx a permutation of 0..n-1, posOf its inverse)
//@ # the output is ">ID\n", "SEQ\n" per record in idx order; every failed Write is reported on cerr.
//@ func WriteAlignment
//@   modifies w, cerr, cdone
//@   requires forall(k, 0, len(recv(ch)), 0 <= posOf(k) && posOf(k) < len(recv(ch)) && recv(ch)[posOf(k)].Idx == k)
//@   requires forall(a, 0, len(recv(ch)), 0 <= recv(ch)[a].Idx && recv(ch)[a].Idx < len(recv(ch)) && posOf(recv(ch)[a].Idx) == a)
//@   loop 1:
//@     invariant 0 <= counter && counter <= len(recv(ch)) && !in(outputMap, counter)
//@     invariant forallint(k, in(outputMap, k) == (counter <= k && k < len(recv(ch)) && posOf(k) < range_i))
//@     invariant forall(k, counter, len(recv(ch)), implies(posOf(k) < range_i, outputMap[k] == recv(ch)[posOf(k)]))
//@     invariant forall(k, 0, counter, posOf(k) < range_i)
//@     invariant implies(failed(w), len(sent(cerr)) >= 1) && len(sent(cdone)) == 0
//@     invariant len(written(w)) == 2 * counter
//@     invariant forall(k, 0, counter, written(w)[2*k] == ">" + recv(ch)[posOf(k)].ID + "\n" && written(w)[2*k+1] == recv(ch)[posOf(k)].Seq + "\n")
//@   loop 2:
//@     invariant 0 <= counter && counter <= len(recv(ch))
//@     invariant forallint(k, in(outputMap, k) == (counter <= k && k < len(recv(ch)) && posOf(k) < range_i + 1))
//@     invariant forall(k, counter, len(recv(ch)), implies(posOf(k) < range_i + 1, outputMap[k] == recv(ch)[posOf(k)]))
//@     invariant forall(k, 0, counter, posOf(k) < range_i + 1)
//@     invariant implies(failed(w), len(sent(cerr)) >= 1) && len(sent(cdone)) == 0
//@     invariant len(written(w)) == 2 * counter
//@     invariant forall(k, 0, counter, written(w)[2*k] == ">" + recv(ch)[posOf(k)].ID + "\n" && written(w)[2*k+1] == recv(ch)[posOf(k)].Seq + "\n")
//@     decreases len(recv(ch)) - counter
//@   ensures [c19.reported] implies(failed(w), len(sent(cerr)) >= 1)
//@   ensures [c12.done] len(sent(cdone)) == 1
//@   ensures [c12.order] len(written(w)) == 2 * len(recv(ch)) && forall(k, 0, len(recv(ch)), written(w)[2*k] == ">" + recv(ch)[posOf(k)].ID + "\n" && written(w)[2*k+1] == recv(ch)[posOf(k)].Seq + "\n")

//@ # C15/C12/C19: wrapping writer. wrap >= 1 is established by the only caller (sam.ToMultiAlign: `if wrap > 0`).
//@ # Order: the record whose header is written is the counter-th by idx (asserted at the header Write). Wrapping: every
//@ # sequence line is the non-empty chunk Seq[written : min(written+wrap, len)] and written advances by wrap from 0 until
//@ # it reaches the length, so the lines are the consecutive width-wrap chunks and their concatenation is Seq.
//@ func WriteWrapAlignment
//@   modifies w, cerr, cdone
//@   requires wrap >= 1
//@   requires forall(k, 0, len(recv(ch)), 0 <= posOf(k) && posOf(k) < len(recv(ch)) && recv(ch)[posOf(k)].Idx == k)
//@   requires forall(a, 0, len(recv(ch)), 0 <= recv(ch)[a].Idx && recv(ch)[a].Idx < len(recv(ch)) && posOf(recv(ch)[a].Idx) == a)
//@   ghost lines int = 0
//@   loop 1:
//@     invariant 0 <= counter && counter <= len(recv(ch)) && !in(outputMap, counter) && written == 0
//@     invariant forallint(k, in(outputMap, k) == (counter <= k && k < len(recv(ch)) && posOf(k) < range_i))
//@     invariant forall(k, counter, len(recv(ch)), implies(posOf(k) < range_i, outputMap[k] == recv(ch)[posOf(k)]))
//@     invariant forall(k, 0, counter, posOf(k) < range_i)
//@     invariant implies(failed(w), len(sent(cerr)) >= 1) && len(sent(cdone)) == 0
//@   loop 2:
//@     invariant 0 <= counter && counter <= len(recv(ch)) && written == 0
//@     invariant forallint(k, in(outputMap, k) == (counter <= k && k < len(recv(ch)) && posOf(k) < range_i + 1))
//@     invariant forall(k, counter, len(recv(ch)), implies(posOf(k) < range_i + 1, outputMap[k] == recv(ch)[posOf(k)]))
//@     invariant forall(k, 0, counter, posOf(k) < range_i + 1)
//@     invariant implies(failed(w), len(sent(cerr)) >= 1) && len(sent(cdone)) == 0
//@     decreases len(recv(ch)) - counter
//@   loop 3:
//@     invariant 0 <= written && written == lines * wrap && lines >= 0
//@     invariant implies(lines > 0, written - wrap < len(fastarecord.Seq))
//@     invariant implies(failed(w), len(sent(cerr)) >= 1) && len(sent(cdone)) == 0
//@     decreases len(fastarecord.Seq) - written
//@   before call:Write#1: do lines = 0
//@   before call:Write#1: assert [order] 0 <= counter && counter < len(recv(ch)) && fastarecord == recv(ch)[posOf(counter)]
//@   after call:Write#1: assert [header] written(w)[len(written(w))-1] == ">" + fastarecord.ID + "\n"
//@   after call:Write#2: assert [lastchunk] written < len(fastarecord.Seq) && written + wrap >= len(fastarecord.Seq) && written(w)[len(written(w))-1] == fastarecord.Seq[written:] + "\n"
//@   after call:Write#2: do lines++
//@   after call:Write#3: assert [chunk] written + wrap < len(fastarecord.Seq) && written(w)[len(written(w))-1] == fastarecord.Seq[written:written+wrap] + "\n"
//@   after call:Write#3: do lines++
//@   ensures [c19.reported] implies(failed(w), len(sent(cerr)) >= 1)
//@   ensures [c12.done] len(sent(cdone)) == 1
