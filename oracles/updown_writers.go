// gfv:dir pkg/updown
//
// Oracle for C19 on the updown topranking writers: a failed Write at any index makes the writer return an error.
package updown

import (
	"encoding/json"
	"errors"
	"fmt"
	"os"
	"testing"
)

type verifFailW struct{ n, failAt int; failed bool }

func (f *verifFailW) Write(p []byte) (int, error) {
	f.n++
	if f.n == f.failAt {
		f.failed = true
		return 0, errors.New("injected write failure")
	}
	return len(p), nil
}

type verifWIn struct {
	Func     string `json:"func"`
	NResults int    `json:"nresults"`
	NCatch   int    `json:"ncatch"`
	FailAt   int    `json:"failAt"`
}

func verifRunWriter(in verifWIn) (ok bool, detail string) {
	w := &verifFailW{failAt: in.FailAt}
	rs := make([]updownCatchmentStruct, in.NResults)
	for i := range rs {
		rs[i].qname = fmt.Sprintf("q%d", i)
		for j := 0; j < in.NCatch; j++ {
			r := resultsStruct{tname: fmt.Sprintf("t%d", j), distance: j}
			rs[i].same.catchment = append(rs[i].same.catchment, r)
			rs[i].up.catchment = append(rs[i].up.catchment, r)
			rs[i].down.catchment = append(rs[i].down.catchment, r)
			rs[i].side.catchment = append(rs[i].side.catchment, r)
		}
	}
	var err error
	switch in.Func {
	case "writeUpDownCatchment":
		err = writeUpDownCatchment(w, rs)
	case "writeUpdownTable":
		err = writeUpdownTable(w, rs)
	default:
		return true, ""
	}
	if w.failed && err == nil {
		return false, fmt.Sprintf("%s: Write call %d of %d failed but the writer returned nil", in.Func, in.FailAt, w.n)
	}
	return true, ""
}

func TestVerifOracle(t *testing.T) {
	report := func(in verifWIn, detail string) {
		b, _ := json.Marshal(map[string]interface{}{"input": in, "detail": detail})
		fmt.Println("GFV-FAIL " + string(b))
	}
	if s := os.Getenv("GFV_INPUT"); s != "" {
		var in verifWIn
		if err := json.Unmarshal([]byte(s), &in); err != nil {
			t.Fatal(err)
		}
		if ok, d := verifRunWriter(in); !ok {
			report(in, d)
		}
		return
	}
	n := 0
	for _, f := range []string{"writeUpDownCatchment", "writeUpdownTable"} {
		for nr := 0; nr <= 3; nr++ {
			for nc := 0; nc <= 2; nc++ {
				for k := 1; k <= 2+nr*(5+4*nc); k++ {
					in := verifWIn{f, nr, nc, k}
					n++
					if ok, d := verifRunWriter(in); !ok {
						report(in, d)
						return
					}
				}
			}
		}
	}
	fmt.Printf("GFV-DONE %d (writer, sizes 0..3 x 0..2, every failing Write index)\n", n)
}
