//go:build verif

package updown

//@ # C19: return-style writers. result == nil implies every Write succeeded.
//@ func writeUpDownCatchment
//@   modifies w
//@   loop 1:
//@     invariant !failed(w)
//@   loop 2:
//@     invariant !failed(w)
//@   loop 3:
//@     invariant !failed(w)
//@   loop 4:
//@     invariant !failed(w)
//@   loop 5:
//@     invariant !failed(w)
//@   ensures [c19] implies(result == nil, !failed(w))

//@ func writeUpdownTable
//@   modifies w
//@   loop 1:
//@     invariant !failed(w)
//@   loop 2:
//@     invariant !failed(w)
//@   loop 3:
//@     invariant !failed(w)
//@   loop 4:
//@     invariant !failed(w)
//@   loop 5:
//@     invariant !failed(w)
//@   ensures [c19] implies(result == nil, !failed(w))
