package main

import (
	"bytes"
	"context"
	"fmt"
	"os"
	"os/exec"
	"path/filepath"
	"strings"
	"sync"
	"time"
)

type solverSpec struct {
	Name string
	Cmd  []string
}

var solvers = []solverSpec{
	{"z3-5.1.0", []string{"z3-new", "-smt2"}},
	{"z3-4.8.12", []string{"z3", "-smt2"}},
	{"cvc5-1.0", []string{"cvc5", "--lang=smt2", "--full-saturate-quant"}},
}

// buildRelaxed drops every quantified assertion (axioms, invariants, frame conditions): a model of the rest is only a
// candidate counterexample and counts for nothing until it has been replayed on the real code.
func (o *Obligation) buildRelaxed() string {
	q := o.buildQuery(true)
	var b strings.Builder
	for _, ln := range strings.Split(q, "\n") {
		if strings.HasPrefix(ln, "(assert ") && strings.Contains(ln, "(forall ") && !strings.HasPrefix(ln, "(assert (not ") {
			continue
		}
		b.WriteString(ln)
		b.WriteString("\n")
	}
	return b.String()
}

func (o *Obligation) buildQuery(models bool) string {
	c := o.Ctx
	var b strings.Builder
	if models {
		b.WriteString("(set-option :produce-models true)\n")
	}
	b.WriteString("(set-logic ALL)\n")
	b.WriteString(prelude)
	for _, d := range c.decls {
		b.WriteString(d)
		b.WriteString("\n")
	}
	for _, a := range c.literalAxioms() {
		b.WriteString("(assert " + a + ")\n")
	}
	for _, a := range c.assumes[:o.NAssume] {
		b.WriteString("(assert " + a + ")\n")
	}
	b.WriteString("(assert " + o.PC + ")\n")
	b.WriteString("(assert " + not(o.Goal) + ")\n")
	b.WriteString("(check-sat)\n")
	if models {
		b.WriteString("(get-model)\n")
	}
	return b.String()
}

type solveResult struct {
	status  string
	backend string
	ms      int64
	out     string
}

func runSolver(ctx context.Context, s solverSpec, file string, timeout time.Duration) solveResult {
	start := time.Now()
	cctx, cancel := context.WithTimeout(ctx, timeout)
	defer cancel()
	args := append([]string{}, s.Cmd[1:]...)
	if strings.HasPrefix(s.Name, "z3") {
		args = append(args, fmt.Sprintf("-T:%d", int(timeout.Seconds())+1))
	} else {
		args = append(args, fmt.Sprintf("--tlimit=%d", timeout.Milliseconds()))
	}
	args = append(args, file)
	cmd := exec.CommandContext(cctx, s.Cmd[0], args...)
	var out bytes.Buffer
	cmd.Stdout = &out
	cmd.Stderr = &out
	cmd.Run()
	ms := time.Since(start).Milliseconds()
	txt := out.String()
	first := ""
	for _, ln := range strings.Split(txt, "\n") {
		ln = strings.TrimSpace(ln)
		if ln == "unsat" || ln == "sat" || ln == "unknown" || ln == "timeout" {
			first = ln
			break
		}
		if strings.HasPrefix(ln, "(error") {
			first = "error"
			break
		}
	}
	if first == "" {
		if cctx.Err() != nil {
			first = "timeout"
		} else {
			first = "error"
		}
	}
	return solveResult{status: first, backend: s.Name, ms: ms, out: txt}
}

var solverSem = make(chan struct{}, 14)

// discharge decides one obligation: stage 1 z3-new alone with a short limit, stage 2 all three raced.
func discharge(o *Obligation, scratch string, timeout time.Duration) {
	if o.Status != "" {
		return
	}
	if o.TimeoutOverride > 0 {
		timeout = o.TimeoutOverride
	}
	q := o.buildQuery(false)
	o.Query = q
	file := filepath.Join(scratch, sanitize(o.Name)+".smt2")
	os.WriteFile(file, []byte(q), 0o644)
	defer os.Remove(file)
	want := "unsat"
	if o.Vacuity {
		want = "sat"
	}
	// z3 5.1 starts at once with the full time limit; if it has not answered after 2 s the two other solvers join the
	// race (first definite answer wins). Vacuity checks use z3 5.1 alone with a 2 s limit.
	if o.Vacuity {
		solverSem <- struct{}{}
		r := runSolver(context.Background(), solvers[0], file, 2*time.Second)
		<-solverSem
		o.Status, o.Backend, o.Ms = r.status, r.backend, r.ms
		o.finish(want, scratch)
		return
	}
	ctx, cancel := context.WithCancel(context.Background())
	defer cancel()
	ch := make(chan solveResult, len(solvers))
	start := time.Now()
	launch := func(s solverSpec, lim time.Duration) {
		go func() {
			solverSem <- struct{}{}
			defer func() { <-solverSem }()
			ch <- runSolver(ctx, s, file, lim)
		}()
	}
	launch(solvers[0], timeout)
	pending := 1
	others := false
	// solver hints (written by `lock`): obligations that another solver decided when the lock was written start all
	// solvers at once instead of after 2 s
	if solverHints[o.Name] != "" {
		others = true
		launch(solvers[1], timeout)
		launch(solvers[2], timeout)
		pending += 2
	}
	timer := time.NewTimer(2 * time.Second)
	defer timer.Stop()
	best := solveResult{status: "unknown"}
	firstErr := ""
	nErr := 0
	done := false
	for pending > 0 && !done {
		select {
		case <-timer.C:
			if !others {
				others = true
				remaining := timeout - time.Since(start)
				if remaining > time.Second {
					launch(solvers[1], remaining)
					launch(solvers[2], remaining)
					pending += 2
				}
			}
		case r := <-ch:
			pending--
			if r.status == "unsat" || r.status == "sat" {
				best = r
				done = true
				break
			}
			if r.status == "error" {
				nErr++
				if firstErr == "" {
					firstErr = r.backend + ": " + r.out
				}
			}
			if best.status == "unknown" && r.status == "timeout" {
				best = r
			}
			// z3 5.1 gave up early (unknown): let the others try at once
			if !others && r.backend == solvers[0].Name {
				others = true
				remaining := timeout - time.Since(start)
				if remaining > time.Second {
					launch(solvers[1], remaining)
					launch(solvers[2], remaining)
					pending += 2
				}
			}
		}
	}
	cancel()
	o.Status, o.Backend, o.Ms = best.status, best.backend, time.Since(start).Milliseconds()
	if best.status != "unsat" && best.status != "sat" && firstErr != "" {
		o.Model = "solver error: " + firstLines(firstErr, 5)
		if nErr == 3 {
			o.Status = "error"
		}
	}
	o.finish(want, scratch)
}

func firstLines(s string, n int) string {
	ls := strings.Split(s, "\n")
	if len(ls) > n {
		ls = ls[:n]
	}
	return strings.Join(ls, "\n")
}

// finish normalises the status (vacuity checks expect sat) and fetches a model for failed proof obligations.
func (o *Obligation) finish(want string, scratch string) {
	if o.Vacuity {
		if o.Status == "sat" {
			o.Status = "ok-sat"
		} else if o.Status == "unsat" {
			o.Status = "vacuous"
		} else {
			// undecided satisfiability of the preconditions is not a failure: quantified axioms often give unknown
			o.Status = "ok-unknown"
		}
		return
	}
	if o.Status == "unknown" || o.Status == "timeout" {
		file := filepath.Join(scratch, sanitize(o.Name)+".relaxed.smt2")
		os.WriteFile(file, []byte(o.buildRelaxed()), 0o644)
		defer os.Remove(file)
		r := runSolver(context.Background(), solvers[0], file, 5*time.Second)
		if r.status == "sat" {
			o.Model = "candidate model (quantified assumptions dropped; not a counterexample until replayed):\n" + r.out
		}
	}
	if o.Status == "sat" {
		// get a model from the solver that answered
		file := filepath.Join(scratch, sanitize(o.Name)+".model.smt2")
		os.WriteFile(file, []byte(o.buildQuery(true)), 0o644)
		defer os.Remove(file)
		for _, s := range solvers {
			if s.Name == o.Backend {
				r := runSolver(context.Background(), s, file, 20*time.Second)
				if r.status == "sat" {
					o.Model = r.out
				}
			}
		}
	}
}

// solverHints: obligation name -> name of the solver that decided it when the lock was written (only when that was not
// the first solver); read from solver_hints.json by loadAll.
var solverHints = map[string]string{}

func dischargeAll(obs []*Obligation, scratch string, timeout time.Duration) {
	var wg sync.WaitGroup
	sem := make(chan struct{}, 16)
	for _, o := range obs {
		wg.Add(1)
		sem <- struct{}{}
		go func(o *Obligation) {
			defer wg.Done()
			defer func() { <-sem }()
			discharge(o, scratch, timeout)
		}(o)
	}
	wg.Wait()
}
