package main

import (
	"fmt"
	"go/ast"
	"go/token"
	"go/types"
	"strings"
)

// calleeOf resolves the called function object (nil for dynamic calls)
func calleeOf(n *ast.CallExpr, info *types.Info) *types.Func {
	switch f := n.Fun.(type) {
	case *ast.Ident:
		if fn, ok := info.Uses[f].(*types.Func); ok {
			return fn
		}
	case *ast.SelectorExpr:
		if fn, ok := info.Uses[f.Sel].(*types.Func); ok {
			return fn
		}
	case *ast.IndexExpr: // generic instantiation f[T](..)
		if id, ok := f.X.(*ast.Ident); ok {
			if fn, ok := info.Uses[id].(*types.Func); ok {
				return fn
			}
		}
	}
	return nil
}

func (x *Exec) tupleOrSingle(vs []Val) Val {
	if len(vs) == 1 {
		return vs[0]
	}
	return Val{Tuple: vs}
}

func (x *Exec) evalRealCall(n *ast.CallExpr, st *State, env *Env) Val {
	info := env.info
	// closure-table call: table[key](args)
	if ix, ok := n.Fun.(*ast.IndexExpr); ok {
		if t := info.TypeOf(ix.X); t != nil {
			if m, ok := t.Underlying().(*types.Map); ok {
				if _, isFunc := m.Elem().Underlying().(*types.Signature); isFunc {
					return x.callTable(n, ix, st, env)
				}
			}
		}
	}
	fn := calleeOf(n, info)
	if fn == nil {
		panic(unsupported("dynamic call " + exprString(n.Fun)))
	}
	full := fn.FullName()
	// receiver value for methods
	var recv *Val
	var recvExpr ast.Expr
	if sel, ok := n.Fun.(*ast.SelectorExpr); ok {
		if s, ok := info.Selections[sel]; ok && s.Kind() == types.MethodVal {
			recvExpr = sel.X
			// os.Stderr.WriteString etc: do not evaluate package-level receivers
			if !isPkgVar(sel.X, info) {
				v := x.eval(sel.X, st, env)
				recv = &v
			}
		}
	}
	if h, ok := libHandlers[full]; ok {
		return h(x, n, recv, recvExpr, st, env)
	}
	// table builders (nullary functions returning a map literal of closures): the table's identity
	if fi := x.g.funcByObj[fn.Origin()]; fi != nil {
		if tf, ok := x.g.tableByFn[fi.Key]; ok {
			return Val{T: intLit(int64(tf.ID)), Ty: fi.Sig.Results().At(0).Type()}
		}
	}
	// functions of the repository with a contract
	if fi := x.g.funcByObj[fn.Origin()]; fi != nil {
		if con := x.g.cs.Funcs[fi.Key]; con != nil {
			if con.Inline && fi.Sig.Params().Len() == 0 {
				return x.inlineCall(fi, st)
			}
			var args []Val
			for i, a := range n.Args {
				v := x.eval(a, st, env)
				pt := paramType(fi.Sig, i)
				if pt != nil {
					v = x.coerce(v, instType(pt, v))
					if v.Nil {
						v = Val{T: x.c.zero(pt), Ty: pt}
					}
				}
				args = append(args, v)
			}
			return x.callContract(fi, con, recv, args, st, n)
		}
	}
	// a small helper of the repository without a contract (loop-free, no closures / goroutines / defer, not generic):
	// its body is executed in place, so that extracting code into such a helper does not lose the proof
	if fi := x.g.funcByObj[fn.Origin()]; fi != nil && x.inlineDepth < 3 && inlinableBody(fi) {
		var args []Val
		for i, a := range n.Args {
			v := x.eval(a, st, env)
			pt := paramType(fi.Sig, i)
			if pt != nil {
				v = x.coerce(v, pt)
				if v.Nil {
					v = Val{T: x.c.zero(pt), Ty: pt}
				}
			}
			args = append(args, v)
		}
		return x.inlineBody(fi, recv, args, st, n)
	}
	return x.callUnknown(full, fn, recv, n, st, env)
}

// inlinableBody: straight-line / branching code only.
func inlinableBody(fi *FuncInfo) bool {
	if fi.Body == nil || fi.Sig.Variadic() || fi.Sig.TypeParams().Len() > 0 || fi.Sig.RecvTypeParams().Len() > 0 {
		return false
	}
	ok := true
	n := 0
	ast.Inspect(fi.Body, func(nd ast.Node) bool {
		switch nd.(type) {
		case *ast.ForStmt, *ast.RangeStmt, *ast.GoStmt, *ast.DeferStmt, *ast.SelectStmt, *ast.FuncLit, *ast.LabeledStmt, *ast.SendStmt:
			ok = false
		case ast.Stmt:
			n++
		}
		return ok
	})
	return ok && n <= 40
}

// inlineBody executes the callee's body on the caller's state with the parameters bound to the argument values; the
// callee's safety obligations become obligations of the caller (named after the callee).
func (x *Exec) inlineBody(fi *FuncInfo, recv *Val, args []Val, st *State, node ast.Node) Val {
	sub := &Exec{g: x.g, c: x.c, fi: fi, names: x.names, ord: map[ast.Node]int{}, loopOrd: map[ast.Node]int{}, anchors: map[ast.Stmt][]string{},
		usedContracts: x.usedContracts, entry: x.entry, alloc0: x.alloc0, modAll: x.modAll, modRefs: x.modRefs, loopStack: x.loopStack,
		inlineDepth: x.inlineDepth + 1, baseNames: map[string]Val{}, usedPoints: map[int]bool{}}
	sub.prepass()
	work := st.clone()
	sig := fi.Sig
	if r := sig.Recv(); r != nil && recv != nil {
		work.vars[r] = *recv
	}
	for i := 0; i < sig.Params().Len() && i < len(args); i++ {
		work.vars[sig.Params().At(i)] = args[i]
	}
	for i := 0; i < sig.Results().Len(); i++ {
		r := sig.Results().At(i)
		ro := types.NewVar(token.NoPos, fi.Pkg.Types, fmt.Sprintf("result%d", i+1), r.Type())
		sub.results = append(sub.results, ro)
		if r.Name() != "" && r.Name() != "_" {
			work.vars[r] = Val{T: x.c.zero(r.Type()), Ty: r.Type()}
		}
	}
	cenv := &Env{info: fi.Pkg.TypesInfo}
	sub.codeEnv = cenv
	// inside a contract expression / sort axiom (inContract > 0) terms may mention bound variables: keep that mode
	fl := sub.execBlock(fi.Body.List, work, cenv)
	final := fl.ret
	if sig.Results().Len() == 0 {
		final = sub.merge(final, fl.normal)
	}
	x.obligs = append(x.obligs, sub.obligs...)
	x.c.notes["call to "+fi.Key+" (no contract, loop-free): body executed in place"] = true
	if final == nil {
		st.pc = "false"
		return Val{}
	}
	st.heaps, st.alloc, st.gh, st.pc = final.heaps, final.alloc, final.gh, final.pc
	var results []Val
	for _, ro := range sub.results {
		results = append(results, final.vars[ro])
	}
	if len(results) == 0 {
		return Val{}
	}
	return x.tupleOrSingle(results)
}

func instType(pt types.Type, v Val) types.Type {
	if _, ok := pt.(*types.TypeParam); ok {
		if v.Ty != nil {
			return v.Ty
		}
		return tInt
	}
	return pt
}

func isPkgVar(e ast.Expr, info *types.Info) bool {
	switch n := e.(type) {
	case *ast.SelectorExpr:
		if id, ok := n.X.(*ast.Ident); ok {
			if _, isPkg := info.Uses[id].(*types.PkgName); isPkg {
				_, isVar := info.Uses[n.Sel].(*types.Var)
				return isVar
			}
		}
	case *ast.Ident:
		if v, ok := info.Uses[n].(*types.Var); ok {
			return v.Pkg() != nil && v.Parent() == v.Pkg().Scope()
		}
	}
	return false
}

func paramType(sig *types.Signature, i int) types.Type {
	np := sig.Params().Len()
	if sig.Variadic() && i >= np-1 {
		return sig.Params().At(np - 1).Type().(*types.Slice).Elem()
	}
	if i < np {
		return sig.Params().At(i).Type()
	}
	return nil
}

func containsSlice(t types.Type, depth int) bool {
	if depth > 4 {
		return true
	}
	switch u := t.Underlying().(type) {
	case *types.Slice:
		return true
	case *types.Struct:
		for i := 0; i < u.NumFields(); i++ {
			if containsSlice(u.Field(i).Type(), depth+1) {
				return true
			}
		}
	case *types.Array:
		return containsSlice(u.Elem(), depth+1)
	case *types.Pointer:
		return containsSlice(u.Elem(), depth+1)
	case *types.Map:
		return containsSlice(u.Elem(), depth+1)
	}
	return false
}

// callContract applies the modular call rule.
func (x *Exec) callContract(fi *FuncInfo, con *Contract, recv *Val, args []Val, st *State, node ast.Node) Val {
	c := x.c
	names := map[string]Val{}
	sig := fi.Sig
	// pointer-to-struct parameters passed as &local: the callee may update the pointee; its final value is a fresh
	// struct constrained by the postconditions (where the parameter name denotes the final pointee and old(p.f) the
	// entry value), written back to the caller's variable after the call
	type ptrArg struct {
		name   string
		target ast.Expr
		post   Val
	}
	var ptrArgs []ptrArg
	if ce, ok := node.(*ast.CallExpr); ok {
		for i := 0; i < sig.Params().Len() && i < len(ce.Args); i++ {
			p := sig.Params().At(i)
			if pt, isPtr := p.Type().Underlying().(*types.Pointer); isPtr {
				if _, isStruct := pt.Elem().Underlying().(*types.Struct); isStruct {
					if ue, ok := ce.Args[i].(*ast.UnaryExpr); ok && ue.Op == token.AND {
						ptrArgs = append(ptrArgs, ptrArg{name: p.Name(), target: ue.X})
					}
				}
			}
		}
	}
	if recv != nil && fi.RecvName != "" {
		names[fi.RecvName] = *recv
	}
	for i := 0; i < sig.Params().Len(); i++ {
		p := sig.Params().At(i)
		if i < len(args) {
			names[p.Name()] = args[i]
		}
	}
	// the callee's contract may still use the names its parameters had when the lock was written
	for oldName, obj := range x.g.renameMap(fi) {
		for i := 0; i < sig.Params().Len() && i < len(args); i++ {
			if sig.Params().At(i) == obj {
				names[oldName] = args[i]
			}
		}
		if recv != nil && sig.Recv() == obj {
			names[oldName] = *recv
		}
	}
	cenv := &Env{contract: true, names: names, pkg: fi.Pkg.Types}
	ordinal := x.ord[node]
	short := fi.Key[strings.Index(fi.Key, ".")+1:]
	// preconditions
	x.c.inContract++
	for i, r := range con.Requires {
		t := x.defaultType(x.eval(r.Expr, st, cenv)).T
		label := r.Label
		if label == "" {
			label = fmt.Sprintf("%d", i+1)
		}
		x.obligeRaw(fmt.Sprintf("pre@%s.%s", short, label), ordinal, node.Pos(), st, t, "precondition of "+fi.Key+": "+r.Text)
		c.assume(st.pc, t)
	}
	x.c.inContract--
	pre := st.clone()
	// modifies: havoc the listed arrays, writers and channels
	type seqSave struct {
		key  string
		old  Val
		view Val
	}
	var seqs []seqSave
	var failedKeys []string
	failedOld := map[string]string{}
	x.c.inContract++
	for _, m := range con.Modifies {
		if id, ok := m.Expr.(*ast.Ident); ok && id.Name == "everything" {
			// no frame at all: every array may have been rewritten, the arguments' writers/channels used, memory allocated
			for _, es := range sortedKeys(c.heapSorts) {
				st.heaps[es] = c.freshConst("H", c.heapName(es))
			}
			if !x.modAll {
				x.oblige("frame", ordinal, node.Pos(), st, "false", "call to "+fi.Key+" (modifies everything) may write to any array")
			}
			for _, hv := range args {
				if cur, ok := st.gh["failed:"+hv.T]; ok {
					nf := c.freshConst("failed", "Bool")
					c.assume("true", implies(cur.T, nf))
					st.gh["failed:"+hv.T] = Val{T: nf, Ty: tBool}
				}
				for _, pre := range []string{"written:", "sent:"} {
					if cur, ok := st.gh[pre+hv.T]; ok {
						sq := *cur.Seq
						sq.Arr = c.freshConst(pre+"h", "(Array Int "+sq.ESort+")")
						sq.N = c.freshConst(pre+"n", "Int")
						c.assume("true", app(">=", sq.N, cur.Seq.N))
						c.assumes = append(c.assumes, fmt.Sprintf("(forall ((j Int)) (! (=> (and (<= 0 j) (< j %s)) (= (select %s j) (select %s j))) :pattern ((select %s j))))", cur.Seq.N, sq.Arr, cur.Seq.Arr, sq.Arr))
						st.gh[pre+hv.T] = Val{Seq: &sq, Ty: cur.Ty}
					}
				}
			}
			allocPre := st.alloc
			st.alloc = c.freshConst("alloc", "Int")
			c.assume("true", app(">=", st.alloc, allocPre))
			continue
		}
		// writer / channel handles
		if id, ok := m.Expr.(*ast.Ident); ok {
			if v, ok := names[id.Name]; ok && v.Ty != nil {
				switch v.Ty.Underlying().(type) {
				case *types.Interface:
					k := "failed:" + v.T
					if old, ok := st.gh[k]; ok {
						failedKeys = append(failedKeys, k)
						failedOld[k] = old.T
						fd := c.freshConst("failedDuring", "Bool")
						st.gh[k] = Val{T: fd, Ty: tBool}
					}
					wk := "written:" + v.T
					if old, ok := st.gh[wk]; ok {
						s := *old.Seq
						s.Arr = c.freshConst("wlog", "(Array Int "+s.ESort+")")
						s.N = c.freshConst("wlog.n", "Int")
						c.assume("true", app(">=", s.N, "0"))
						view := Val{Seq: &s, Ty: old.Ty}
						seqs = append(seqs, seqSave{wk, old, view})
						st.gh[wk] = view
					}
					continue
				case *types.Chan:
					sk := "sent:" + v.T
					if old, ok := st.gh[sk]; ok {
						s := *old.Seq
						s.Arr = c.freshConst("sent", "(Array Int "+s.ESort+")")
						s.N = c.freshConst("sent.n", "Int")
						c.assume("true", app(">=", s.N, "0"))
						view := Val{Seq: &s, Ty: old.Ty}
						seqs = append(seqs, seqSave{sk, old, view})
						st.gh[sk] = view
					}
					continue
				}
			}
		}
		v := x.eval(m.Expr, pre, cenv)
		if _, ok := v.Ty.Underlying().(*types.Slice); !ok {
			panic(unsupported("modifies item is not a slice, writer or channel: " + m.Text))
		}
		es := c.sortOf(x.elemType(v.Ty))
		ref := c.accessor("s.ref", v.T)
		x.noteWrite(st, ref, node.Pos(), ordinal)
		h := x.heap(st, es)
		na := c.freshConst("A", "(Array Int "+es+")")
		st.heaps[es] = c.define("H", c.heapName(es), app("store", h, ref, na))
	}
	x.c.inContract--
	// results
	var results []Val
	resultHasSlice := false
	for i := 0; i < sig.Results().Len(); i++ {
		rt := sig.Results().At(i).Type()
		if tp, ok := rt.(*types.TypeParam); ok {
			_ = tp
			rt = args[0].Ty
			// f[T](s []T) T: the result has the element type of the argument
			if sig.Params().Len() > 0 {
				if ps, ok := sig.Params().At(0).Type().(*types.Slice); ok {
					if _, isTP := ps.Elem().(*types.TypeParam); isTP {
						if as, ok := args[0].Ty.Underlying().(*types.Slice); ok {
							rt = as.Elem()
						}
					}
				}
			}
		}
		if containsSlice(rt, 0) {
			resultHasSlice = true
		}
		results = append(results, Val{T: c.freshConst("ret_"+short, c.sortOf(rt)), Ty: rt})
	}
	if resultHasSlice {
		// the callee may have allocated arrays reachable from its results
		allocPre := st.alloc
		if !isSimple(allocPre) {
			allocPre = c.define("alloc", "Int", allocPre)
		}
		st.alloc = c.freshConst("alloc", "Int")
		c.assume("true", app(">=", st.alloc, allocPre))
		for _, es := range sortedKeys(c.heapSorts) {
			h := x.heap(st, es)
			nh := c.freshConst("H", c.heapName(es))
			c.assumes = append(c.assumes, fmt.Sprintf("(forall ((r Int)) (! (=> (< r %s) (= (select %s r) (select %s r))) :pattern ((select %s r))))", allocPre, nh, h, nh))
			st.heaps[es] = nh
		}
	}
	for i, r := range results {
		x.assumeWF(st, r)
		names[fmt.Sprintf("result%d", i+1)] = r
		if sig.Results().At(i).Name() != "" {
			names[sig.Results().At(i).Name()] = r
		}
	}
	if len(results) >= 1 {
		names["result"] = results[0]
	}
	oldNames := map[string]Val{}
	for i := range ptrArgs {
		pa := &ptrArgs[i]
		pre := names[pa.name]
		oldNames[pa.name] = pre
		pa.post = Val{T: c.freshConst("post_"+pa.name, c.sortOf(pre.Ty)), Ty: pre.Ty}
		x.assumeWF(st, pa.post)
		names[pa.name] = pa.post
		// … also under the name the parameter had when the lock was written
		for oldName, obj := range x.g.renameMap(fi) {
			if obj.Name() == pa.name {
				oldNames[oldName] = pre
				names[oldName] = pa.post
			}
		}
	}
	// postconditions
	penv := &Env{contract: true, names: names, oldNames: oldNames, pkg: fi.Pkg.Types, old: pre}
	x.c.inContract++
	for _, e := range con.Ensures {
		if strings.HasPrefix(e.Label, "local.") {
			continue // stated over the callee's local variables: checked there, not exported
		}
		t := x.defaultType(x.eval(e.Expr, st, penv)).T
		c.assume(st.pc, t)
	}
	x.c.inContract--
	// restore caller views of ghost state
	for _, k := range failedKeys {
		fd := st.gh[k].T
		st.gh[k] = Val{T: c.define("failed", "Bool", or(failedOld[k], fd)), Ty: tBool}
	}
	for _, sv := range seqs {
		st.gh[sv.key] = x.seqConcat(sv.old, st.gh[sv.key])
	}
	for _, pa := range ptrArgs {
		x.assign(pa.target, pa.post, st, x.codeEnv)
	}
	if con.Trusted {
		why := con.TrustWhy
		c.trusted["assumed contract of "+fi.Key+" ("+why+")"] = true
	}
	x.usedContracts[fi.Key] = true
	if len(results) == 0 {
		return Val{}
	}
	return x.tupleOrSingle(results)
}

func (x *Exec) seqConcat(a, b Val) Val {
	c := x.c
	s := *a.Seq
	s.Arr = c.freshConst("seq", "(Array Int "+s.ESort+")")
	s.N = c.define("seq.n", "Int", add(a.Seq.N, b.Seq.N))
	c.assumes = append(c.assumes, fmt.Sprintf("(forall ((j Int)) (! (= (select %s j) (ite (< j %s) (select %s j) (select %s (- j %s)))) :pattern ((select %s j))))",
		s.Arr, a.Seq.N, a.Seq.Arr, b.Seq.Arr, a.Seq.N, s.Arr))
	return Val{Seq: &s, Ty: a.Ty}
}

func (x *Exec) obligeRaw(kind string, ordinal int, pos token.Pos, st *State, goal, human string) {
	x.oblige(kind, ordinal, pos, st, goal, human)
}

// noteWrite: frame obligations (function-level and enclosing loops) for a write to array ref
func (x *Exec) noteWrite(st *State, ref string, pos token.Pos, ordinal int) {
	x.frameCheck(st, ref, pos, ordinal)
	for depth, lc := range x.loopStack {
		if lc.writesAll {
			continue
		}
		alts := []string{app(">=", ref, lc.allocEntry)}
		for _, r := range lc.modRefs {
			alts = append(alts, eq(ref, r))
		}
		x.oblige(fmt.Sprintf("loopframe.d%d", depth+1), ordinal, pos, st, or(alts...), "array written inside a loop is one the loop is known to write")
	}
}

// callUnknown: sound havoc of everything reachable from the arguments.
func (x *Exec) callUnknown(full string, fn *types.Func, recv *Val, n *ast.CallExpr, st *State, env *Env) Val {
	c := x.c
	sig := fn.Type().(*types.Signature)
	touches := false
	for _, a := range n.Args {
		v := x.eval(a, st, env)
		if v.Ty != nil && containsSlice(v.Ty, 0) {
			touches = true
		}
	}
	if recv != nil && recv.Ty != nil && containsSlice(recv.Ty, 0) {
		touches = true
	}
	c.unspecified[full] = true
	// writers and channels handed to an unspecified callee: it may write (and fail) / send any number of items
	handles := []Val{}
	for _, a := range n.Args {
		func() {
			saved := c.inContract
			defer func() {
				c.inContract = saved
				recover()
			}()
			c.inContract++
			v := x.eval(a, st.clone(), env)
			if v.Ty != nil {
				handles = append(handles, v)
			}
		}()
	}
	if recv != nil {
		handles = append(handles, *recv)
	}
	for _, hv := range handles {
		if cur, ok := st.gh["failed:"+hv.T]; ok {
			nf := c.freshConst("failed", "Bool")
			c.assume("true", implies(cur.T, nf))
			st.gh["failed:"+hv.T] = Val{T: nf, Ty: tBool}
		}
		for _, pre := range []string{"written:", "sent:"} {
			if cur, ok := st.gh[pre+hv.T]; ok {
				sq := *cur.Seq
				sq.Arr = c.freshConst(pre+"h", "(Array Int "+sq.ESort+")")
				sq.N = c.freshConst(pre+"n", "Int")
				c.assume("true", app(">=", sq.N, cur.Seq.N))
				c.assumes = append(c.assumes, fmt.Sprintf("(forall ((j Int)) (! (=> (and (<= 0 j) (< j %s)) (= (select %s j) (select %s j))) :pattern ((select %s j))))", cur.Seq.N, sq.Arr, cur.Seq.Arr, sq.Arr))
				st.gh[pre+hv.T] = Val{Seq: &sq, Ty: cur.Ty}
			}
		}
	}
	if touches {
		for _, es := range sortedKeys(c.heapSorts) {
			st.heaps[es] = c.freshConst("H", c.heapName(es))
		}
		if !x.modAll {
			x.oblige("frame", x.ord[n], n.Pos(), st, "false", "call to unspecified function "+full+" may write to any array")
		}
	}
	allocPre := st.alloc
	st.alloc = c.freshConst("alloc", "Int")
	c.assume("true", app(">=", st.alloc, allocPre))
	var results []Val
	for i := 0; i < sig.Results().Len(); i++ {
		rt := sig.Results().At(i).Type()
		v := Val{T: c.freshConst("ret_"+fn.Name(), c.sortOf(rt)), Ty: rt}
		x.assumeWF(st, v)
		results = append(results, v)
	}
	if len(results) == 0 {
		return Val{}
	}
	return x.tupleOrSingle(results)
}

// ---------- closure tables ----------

func (x *Exec) callTable(n *ast.CallExpr, ix *ast.IndexExpr, st *State, env *Env) Val {
	c := x.c
	tbl := x.eval(ix.X, st, env) // Int id
	key := x.eval(ix.Index, st, env)
	var args []Val
	for _, a := range n.Args {
		args = append(args, x.defaultType(x.eval(a, st, env)))
	}
	sig := env.info.TypeOf(ix).Underlying().(*types.Signature)
	// candidate tables: all table functions with matching signature
	var results []Val
	for i := 0; i < sig.Results().Len(); i++ {
		rt := sig.Results().At(i).Type()
		results = append(results, Val{T: c.freshConst("ret_tbl", c.sortOf(rt)), Ty: rt})
	}
	pre := st.clone()
	// results may alias argument arrays or be fresh: advance alloc, frame heaps
	allocPre := st.alloc
	if !isSimple(allocPre) {
		allocPre = c.define("alloc", "Int", allocPre)
	}
	st.alloc = c.freshConst("alloc", "Int")
	c.assume("true", app(">=", st.alloc, allocPre))
	for _, es := range sortedKeys(c.heapSorts) {
		h := x.heap(st, es)
		nh := c.freshConst("H", c.heapName(es))
		c.assumes = append(c.assumes, fmt.Sprintf("(forall ((r Int)) (! (=> (< r %s) (= (select %s r) (select %s r))) :pattern ((select %s r))))", allocPre, nh, h, nh))
		st.heaps[es] = nh
	}
	for _, r := range results {
		x.assumeWF(st, r)
	}
	var keyOK []string
	ordinal := x.ord[n]
	for _, tf := range x.g.tables {
		if !types.Identical(tf.ElemSig, sig) {
			continue
		}
		isTbl := eq(tbl.T, intLit(int64(tf.ID)))
		var keysHere []string
		for _, k := range tf.Keys {
			fi := tf.Entries[k]
			con := x.g.cs.Funcs[fi.Key]
			sel := and(isTbl, eq(key.T, c.strLit(k)))
			keysHere = append(keysHere, eq(key.T, c.strLit(k)))
			if con == nil {
				// no contract: nothing known about this entry
				c.unspecified[fi.Key] = true
				continue
			}
			names := map[string]Val{}
			for i := 0; i < fi.Sig.Params().Len(); i++ {
				names[fi.Sig.Params().At(i).Name()] = args[i]
			}
			// the entry's contract may still use the names its parameters had when the lock was written
			for oldName, obj := range x.g.renameMap(fi) {
				for i := 0; i < fi.Sig.Params().Len() && i < len(args); i++ {
					if fi.Sig.Params().At(i) == obj {
						names[oldName] = args[i]
					}
				}
			}
			cenv := &Env{contract: true, names: names, pkg: fi.Pkg.Types}
			x.c.inContract++
			for j, r := range con.Requires {
				t := x.defaultType(x.eval(r.Expr, pre, cenv)).T
				save := pre.pc
				pre.pc = x.namePC(and(save, sel))
				x.oblige(fmt.Sprintf("pre@%s[%s].%d", shortKey(tf.Func.Key), k, j+1), ordinal, n.Pos(), pre, t, "precondition of "+fi.Key+": "+r.Text)
				pre.pc = save
			}
			for i, r := range results {
				names[fmt.Sprintf("result%d", i+1)] = r
			}
			if len(results) > 0 {
				names["result"] = results[0]
			}
			penv := &Env{contract: true, names: names, pkg: fi.Pkg.Types, old: pre}
			for _, e := range con.Ensures {
				t := x.defaultType(x.eval(e.Expr, st, penv)).T
				c.assume(and(st.pc, sel), t)
			}
			x.c.inContract--
			x.usedContracts[fi.Key] = true
		}
		keyOK = append(keyOK, and(isTbl, or(keysHere...)))
	}
	x.oblige("nilfunc", ordinal, n.Pos(), pre, or(keyOK...), "table lookup yields a function (key present)")
	return x.tupleOrSingle(results)
}

func shortKey(k string) string { return k[strings.Index(k, ".")+1:] }
